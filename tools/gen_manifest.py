#!/usr/bin/env python3
"""Regenerates /verif/MANIFEST.json from the table below (run after adding a check)."""
import json, os, sys
HERE = os.path.dirname(os.path.dirname(os.path.abspath(__file__)))

P = {
 # id: (level, technique, text, note)
 "C01": ("other", "CFG cut-set guards + SSA provenance terms on the attestation verifier and its two call sites",
         "Static: every rejection rule of the verifier (exact length, non-zero threshold, recovery error, strictly increasing signer address, membership in the whole enabled set) cuts every path to acceptance for every loop iteration; callers pass state-read attesters/threshold and verify the same bytes they parse. Not decided: secp256k1/Keccak semantics, completeness for honest attestations.",
         "go/ssa of x/tools v0.29.0; go-ethereum Ecrecover/Keccak256 behave as documented"),
 "C02": ("other", "must-pass-through + cut-set guards on ReceiveMessage, who-may-write/delete on the used-nonce region, key-term agreement",
         "Static: lookup guard and mark on every success path with one nonce term taken from the attested bytes; no deleter of the region exists; writers/callers confined; fixed-width injective key; Get/Set/Validate/query key agreement. Not decided: SDK rollback, induction over histories.",
         "cosmos-sdk discards failed message branches; store semantics"),
 "C03": ("other", "acceptance-condition table decided by CFG cut-sets, fail-arm and exactness rules on ReceiveMessage",
         "Static: each documented acceptance condition cuts every effect and every success return in its scope, each fail arm is a clean error exit, and no undocumented rejection exists. Not decided: run-time truth of conditions, dependency Mint success.",
         "go/ssa; callee contracts checked inside Parse functions and the verifier"),
 "C04": ("other", "SSA provenance terms of the mint request and events; call-graph who-may-mint",
         "Static: every field of the single Mint request and of both events has the documented provenance; one mint site, only in the module branch, once per success path; no other entry point reaches Mint. Not decided: FTF Mint semantics, sums over histories.",
         "fiat-token-factory Mint mints what it is asked"),
 "C05": ("other", "SSA provenance terms of debit/burn/body; ordering by must-pass-through; who-may-debit/burn/emit",
         "Static: debit of the depositor for exactly the stated coin, burn of the same coin in the module's name, body amount = parameter, sender derived from the authenticated From; debit->burn->emit order; call-graph confinement. Not decided: bank/FTF semantics, history sums.",
         "bank and FTF keepers do what they are asked"),
 "C06": ("other", "SSA provenance terms of message header, burn body, both DepositForBurn events and response nonces",
         "Static: all 8 header fields, 5 body fields, 8+8 event fields and response nonces have the documented provenance, burn token = one Keccak over the lower-cased denom in body and events. Not decided: SDK typed-event encoding; Bytes() layout is C16.",
         "typed-event emission encodes the struct it is given"),
 "C07": ("other", "counter read-increment-return shape; exactly-one reservation per success path; call-graph unreachability from replacements",
         "Static: reserve reads K, stores old+1 under K, returns old; one reservation per success path of the two senders; reserved value flows to message and response; replacements cannot reach the counter. Not decided: SDK rollback, induction over histories, wrap at 2^64.",
         "cosmos-sdk discards failed message branches"),
 "C08": ("other", "precondition tables with exact comparator normal form, decided by CFG cut-sets + exactness",
         "Static: each documented deposit/send precondition cuts debit, burn, emit and success with the exact relation (amount<=limit, len<=max), limits are stored and looked up under the same lower-cased key, no undocumented rejection. Not decided: solvency, FTF's own checks.",
         "go/ssa; math.Int relational methods are the relations they name"),
 "C09": ("other", "argument-binding provenance terms + guards + empty write/ledger effect set for both replacements",
         "Static: which fields are kept and which are new, sender/depositor/domain/attestation guards, no store write or ledger effect reachable. Not decided: attestation validity itself (C01).",
         "go/ssa"),
 "C10": ("proof", "CFG cut-set proof per privileged handler + decoded signer option of every Msg descriptor",
         "For all 18 privileged handlers: the comparison stored-role == msg.From cuts every store/ledger/event effect and every success return, and the unauthorised arm reaches only error exits and no effect site; all 25 Msg descriptors declare signer=from. Exhaustive over handlers and paths.",
         "go/ssa construction; effect recognition; cosmos-sdk verifies the signature of the declared signer"),
 "C11": ("other", "who-may-write per role slot, value provenance, must-pass-through of the pending-slot delete",
         "Static: writers of each of the five role slots and their callers, values written, pending slot deleted on every accept success path, address validation guards the write. The lifecycle automaton is argued from these shapes in the evidence.",
         "go/ssa"),
 "C12": ("other", "flag x flow matrix by cut-sets (positive cells) and transitive read sets (negative cells); writers and constants",
         "Static: each flag blocks exactly the flows it names (cut-set), is not read by flows it must not block (read-set), is written only by its own pause/unpause with the right constant.",
         "go/ssa"),
 "C13": ("other", "exact guard relations of enable/disable/update/genesis + who-may-write on attesters and threshold",
         "Static: the relations used by the induction (n != 1, n > t; 0 < a <= n; not found / found) guard the writes exactly; the compared count is the region's iterator length; writers confined. Induction written out in the evidence.",
         "go/ssa"),
 "C14": ("other", "error-propagation discipline on every error-returning call + post-effect exit classification",
         "Static: no error from a dependency or helper is dropped; every exit after the first effect is the full success exit or an error exit. Not decided: that the SDK discards the branch.",
         "cosmos-sdk discards failed message branches"),
 "C15": ("proof", "transitive effect summaries (may-write sets with key terms) over the module call graph",
         "For every code path of 25 tx handlers, 19 queries and genesis export: store writes/deletes are a subset of the documented table and name the request's own key; regions pairwise prefix-free; store API confined to keeper accessors; no escape. Exhaustive over handlers and paths.",
         "go/ssa construction; effect recognition table; SDK discards failed branches"),
 "C16": ("other", "independent wire-layout table vs slot maps extracted from encoder and decoder; length guards by cut-sets",
         "Static: offsets, widths, endianness and field<->slot binding of both directions equal an independent CCTP layout table; slots partition the fixed part; wrong lengths rejected. Round-trip follows from slot agreement + partition; it is not executed.",
         "encoding/binary and math/big behave as documented"),
 "C17": ("other", "field and region coverage of init/export vs everything handlers can write; duplicate-detection wiring",
         "Static: every GenesisState field is read by init and assigned by export, every writable region is exported and imported, each keyed list has a duplicate check keyed by the setter's key function on the map it inserts into. Not decided: JSON codec, run-time multiset equality.",
         "go/ssa"),
 "C18": ("other", "determinism scan of module code (map range, time, rand, env, goroutines, channels, sync, package-level writes)",
         "Static: none of the nondeterminism sources occurs in module code, every function outside the module that consensus code calls is in a judged table (fail-closed), registration functions run at init only, nothing formatted prints an address, package-level state is written only in initialisers, keeper fields only in the constructor, no interface of unknown implementation is invoked, lists are built in store iterator order. Not decided: determinism of dependencies beyond the judged table, and of the runtime.",
         "dependencies and Go runtime are deterministic for the operations used"),
 "C19": ("other", "key-derivation agreement per collection, existence guards by cut-sets, query->getter wiring terms",
         "Static: Get/Set/Delete/Validate derive the same injective key per collection, add/remove are guarded by existence, single queries call the collection's getter with the request fields, list queries paginate the collection's own prefix. Not decided: query.Paginate and iterator behaviour.",
         "cosmos-sdk query.Paginate and prefix store iterate in key order"),
 "C20": ("other", "inventory of panic-capable constructs reachable from entry points, each discharged by a dominating guard or a reasoned table entry",
         "Static: every explicit panic, slice/index/full-slice expression, slice-to-array conversion, signed shift, nil-able pointer result, nil-able math.Int use, panicking constructor and loop reachable from the 25+19+codec+CLI entry points (including methods reachable only through interface values handed to dependencies, and every text slice in the cli package) is guarded, bounded or allow-listed with its reason; external callees are confined to a judged table. Not decided: panics inside dependencies other than through the tabled APIs.",
         "frozen table of panicking dependency APIs"),
}

IMPLEMENTED = [l.strip() for l in open(os.path.join(HERE, "tools", "implemented.txt")) if l.strip() and not l.startswith("#")]

checks = []
na = []
for pid in sorted(P):
    level, tech, text, note = P[pid]
    if pid in IMPLEMENTED:
        checks.append({
            "property_id": pid,
            "quick_cmd": f"./run.sh {pid} quick",
            "thorough_cmd": f"./run.sh {pid} thorough",
            "evidence_file": f"/verif/evidence/{pid}.json",
            "replay_cmd_template": f"./run.sh {pid} --replay {{path}}",
            "engine": "cctpcheck",
            "level_claimed": {"category": level, "text": text, "design_ref": f"DESIGN.md §4 {pid}"},
            "level_note": note,
            "technique": "static analysis: " + tech,
        })
    else:
        na.append({"property_id": pid, "reason": "no check is registered for this property in this revision of /verif (rule set still being built; see DESIGN.md §4 for the planned static clause) — nothing is claimed"})

m = {
    "version": 1,
    "setup_cmd": "./setup.sh",
    "hooks": {"guard": "verif", "enable": "none needed: the analysis reads /repo's source; no build tag is used", "baseline_off_cmd":
              "cd /repo && GOWORK=off GOFLAGS=-mod=mod GOPROXY=off GOSUMDB=off go test -vet=off -count=1 ./...", "source_commits": [], "add_only": True},
    "engines": [{"name": "cctpcheck", "path": "/verif/checker", "serves_properties": sorted(IMPLEMENTED),
                 "kind_free_text": "repository-specific static analyser on go/packages + go/types + go/ssa (x/tools v0.29.0): effect summaries, CFG cut-set guards walked through new helper functions (detours), SSA provenance terms with normal forms, call-graph rules; global fail-closed obligations asked by every property: mutation discipline (who may write which memory), call resolution (no unresolved/recursive/deferred/unknown-interface call), exact service and genesis wiring, module boundary (capabilities, callbacks, module-typed interface values handed to outside code), generated-code inventory, unconditional accessor writes"}],
    "checks": checks,
    "notes": "All checks are static analyses of /repo's current source (nothing in /repo is executed). Genuine defects found are fixed in /repo by 'fix:' commits or listed in /verif/known_findings.json; see DESIGN.md §5. The thorough tier additionally replays the committed corpora against scratch copies of the tree (mutants/*.json: every entry must be reported by its property; benign/*.json: must stay silent, twelve documented false alarms are shown as known-false-alarm; seeded/*: 125 agent-written breaking changes with demonstrations, 50 of them written by white-box adversaries against the checker's own source) — DESIGN.md §11/§12. New (non-reference) helper functions are analysed through: see DESIGN.md §11.",
    "not_applicable": na,
}
json.dump(m, open(os.path.join(HERE, "MANIFEST.json"), "w"), indent=1)
print("MANIFEST.json:", len(checks), "checks,", len(na), "not claimed")
