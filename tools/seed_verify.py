#!/usr/bin/env python3
"""Verify a sub-agent's seeded change and record it under /verif/seeded/<name>/.

usage: tools/seed_verify.py <outdir under /tmp/seedout> [name]
Steps (all in a scratch git worktree of /repo under /tmp, removed afterwards):
  1. patch applies and the tree builds; 2. the pinned suite passes with the patch (288);
  3. the demonstration fails with the patch; 4. the demonstration passes without the patch;
  5. run every registered check against the patched tree and record which fire.
"""
import json, os, re, shutil, subprocess, sys, glob

HERE = os.path.dirname(os.path.dirname(os.path.abspath(__file__)))
ENV = dict(os.environ, GOWORK="off", GOFLAGS="-mod=mod", GOPROXY="off", GOSUMDB="off", GOTOOLCHAIN="local")

def sh(cmd, cwd=None, timeout=1800):
    p = subprocess.run(cmd, shell=True, cwd=cwd, env=ENV, capture_output=True, text=True, timeout=timeout)
    return p.returncode, p.stdout + p.stderr

def count_tests(out):
    return len(re.findall(r'"Action":"pass","Package":"[^"]+","Test":"', out)), len(re.findall(r'"Action":"fail","Package":"[^"]+","Test":"', out))

def main():
    src = sys.argv[1].rstrip("/")
    pid = os.path.basename(src)
    name = sys.argv[2] if len(sys.argv) > 2 else pid
    wt = "/tmp/sv-" + name
    sh(f"git -C /repo worktree remove --force {wt}")
    shutil.rmtree(wt, ignore_errors=True)
    rc, out = sh(f"git -C /repo worktree add --detach {wt} HEAD")
    assert rc == 0, out
    meta = {"property": pid, "name": name, "source": "independent sub-agent given only the property text and a scratch worktree"}
    try:
        patch = os.path.join(src, "patch.diff")
        rc, out = sh(f"git apply --whitespace=nowarn {patch}", cwd=wt)
        meta["patch_applies"] = rc == 0
        if rc != 0:
            print("patch does not apply:", out); return finish(meta, src, name, keep=False)
        rc, out = sh("go build ./... ", cwd=wt)
        meta["builds"] = rc == 0
        if rc != 0:
            print("does not build:", out[-2000:]); return finish(meta, src, name, keep=False)
        rc, out = sh("go test -vet=off -count=1 -json ./...", cwd=wt)
        p_, f_ = count_tests(out)
        meta["suite_with_patch"] = {"pass": p_, "fail": f_}
        print(f"suite with patch: pass={p_} fail={f_}")
        # demo files
        demos = []
        dp = os.path.join(src, "DEMO_PATH.txt")
        dptext = open(dp).read() if os.path.exists(dp) else ""
        arrows = {os.path.basename(a.strip()): b.strip() for a, b in re.findall(r'([\w./-]+_test\.go)\s*->\s*([\w./-]+_test\.go)', dptext)}
        paths = re.findall(r'[\w./-]+_test\.go', dptext)
        for f in glob.glob(os.path.join(src, "*_test.go")):
            base = os.path.basename(f)
            dest = arrows.get(base) or next((p for p in paths if os.path.basename(p) == base), None)
            if dest is None and len(paths) == 1: dest = paths[0]
            if dest is None: dest = "x/cctp/keeper/" + base
            dest = re.sub(r'^/tmp/seed-C\d+/', '', dest)
            demos.append((f, dest))
        meta["demo_files"] = [d for _, d in demos]
        pkgs = set()
        for f, dest in demos:
            os.makedirs(os.path.dirname(os.path.join(wt, dest)), exist_ok=True)
            shutil.copy(f, os.path.join(wt, dest))
            pkgs.add("./" + os.path.dirname(dest))
        pk = " ".join(sorted(pkgs))
        names = []
        for f, _ in demos:
            names += re.findall(r'^func (Test\w+)\(', open(f).read(), re.M)
        runre = "^(" + "|".join(sorted(set(names))) + ")$"
        meta["demo_tests"] = sorted(set(names))
        rc1, out1 = sh(f"go test -vet=off -count=1 -run '{runre}' {pk}", cwd=wt)
        meta["demo_with_patch"] = "FAIL" if rc1 != 0 else "PASS"
        rc, out = sh(f"git apply -R --whitespace=nowarn {patch}", cwd=wt)
        assert rc == 0, out
        rc2, out2 = sh(f"go test -vet=off -count=1 -run '{runre}' {pk}", cwd=wt)
        meta["demo_without_patch"] = "PASS" if rc2 == 0 else "FAIL"
        if "no tests to run" in out2 and "ok" not in out2.replace("no tests to run", ""):
            meta["demo_without_patch"] = "NO-TESTS"
        print("demo with patch:", meta["demo_with_patch"], " without:", meta["demo_without_patch"])
        if rc2 != 0: print(out2[-1500:])
        sh(f"git apply --whitespace=nowarn {patch}", cwd=wt)
        for _, dest in demos:
            os.remove(os.path.join(wt, dest))
        # checks
        ev = "/tmp/sv-ev-" + name
        rc, out = sh(f"{HERE}/bin/cctpcheck -repo {wt} -prop all -q -evidence {ev}/ev -replaydir {ev}/rp -known {HERE}/known_findings.json")
        fired = sorted(set(re.findall(r"VIOLATION property=(C\d+)", out)))
        details = [l.strip() for l in out.splitlines() if l.strip().startswith(("VIOLATED", "UNDECIDED"))]
        meta["checks_fired"] = fired
        meta["check_details"] = details[:12]
        shutil.rmtree(ev, ignore_errors=True)
        print("checks fired:", fired)
        for d in details[:8]: print("   ", d[:260])
        ok = meta["suite_with_patch"]["fail"] == 0 and meta["suite_with_patch"]["pass"] >= 288 and meta["demo_with_patch"] == "FAIL" and meta["demo_without_patch"] == "PASS"
        meta["confirmed"] = ok
        return finish(meta, src, name, keep=ok)
    finally:
        sh(f"git -C /repo worktree remove --force {wt}")
        shutil.rmtree(wt, ignore_errors=True)
        sh("git -C /repo worktree prune")

def finish(meta, src, name, keep):
    out = os.path.join(HERE, "seeded", name)
    if keep:
        os.makedirs(out, exist_ok=True)
        shutil.copy(os.path.join(src, "patch.diff"), out)
        for f in glob.glob(os.path.join(src, "*_test.go")):
            shutil.copy(f, os.path.join(out, os.path.basename(f) + ".txt"))
        notes = os.path.join(src, "NOTES.md")
        if os.path.exists(notes): shutil.copy(notes, out)
        meta["what_i_ran"] = ["git apply patch.diff in a scratch worktree of /repo HEAD", "go build ./...", "go test -vet=off -count=1 -json ./... (pinned suite, demo absent)",
                              "go test -run Seed <demo pkg> with the patch (must fail)", "git apply -R; go test -run Seed <demo pkg> (must pass)", "bin/cctpcheck -repo <patched tree> -prop all"]
        json.dump(meta, open(os.path.join(out, "meta.json"), "w"), indent=1)
        print("kept ->", out)
    else:
        print("NOT kept:", json.dumps(meta)[:600])
    return 0 if keep else 1

if __name__ == "__main__":
    sys.exit(main())
