#!/usr/bin/env python3
"""Re-run every registered check against each kept seeded change (seeded/*/patch.diff applied to a scratch
copy of /repo's current tree) and record which checks fire. usage: tools/seed_recheck.py [--update] [-j N]"""
import json, os, re, shutil, subprocess, sys, tempfile, glob
from concurrent.futures import ThreadPoolExecutor
HERE = os.path.dirname(os.path.dirname(os.path.abspath(__file__)))
REPO = os.environ.get("VERIF_REPO", "/repo")
BIN = os.path.join(HERE, "bin", "cctpcheck")

PROP = "all"
def one(d):
    name = os.path.basename(d)
    tmp = tempfile.mkdtemp(prefix="cctpseed-")
    try:
        tree = os.path.join(tmp, "tree")
        shutil.copytree(REPO, tree, ignore=shutil.ignore_patterns(".git"))
        p = subprocess.run(["git", "apply", "--whitespace=nowarn", os.path.join(d, "patch.diff")], cwd=tree, capture_output=True, text=True)
        if p.returncode != 0:
            return name, None, "patch does not apply: " + p.stderr[:200]
        q = subprocess.run([BIN, "-repo", tree, "-prop", PROP, "-q", "-evidence", tmp + "/ev", "-replaydir", tmp + "/rp", "-known", os.path.join(HERE, "known_findings.json")],
                           capture_output=True, text=True, timeout=900)
        out = q.stdout + q.stderr
        fired = sorted(set(re.findall(r"VIOLATION property=(C\d+)", out)))
        details = [l.strip() for l in out.splitlines() if l.strip().startswith(("VIOLATED", "UNDECIDED"))]
        return name, fired, details
    finally:
        shutil.rmtree(tmp, ignore_errors=True)

def main():
    global PROP
    if "--prop" in sys.argv:
        PROP = sys.argv[sys.argv.index("--prop") + 1]
    update = "--update" in sys.argv and PROP == "all"
    jobs = 6
    if "-j" in sys.argv: jobs = int(sys.argv[sys.argv.index("-j") + 1])
    dirs = sorted(d for d in glob.glob(os.path.join(HERE, "seeded", "*")) if os.path.exists(os.path.join(d, "patch.diff")))
    if PROP != "all":
        # only the changes this property's check is recorded to catch
        dirs = [d for d in dirs if PROP in json.load(open(os.path.join(d, "meta.json"))).get("checks_fired", []) or json.load(open(os.path.join(d, "meta.json"))).get("property") == PROP]
    with ThreadPoolExecutor(max_workers=jobs) as ex:
        res = list(ex.map(one, dirs))
    bad = 0
    summary = {}
    for (name, fired, details), d in zip(res, dirs):
        meta = json.load(open(os.path.join(d, "meta.json")))
        prop = meta.get("property", name)
        own = fired is not None and prop in fired
        if fired is None or not fired:
            bad += 1
        print("%-22s breaks %-4s fired=%s own=%s" % (name, prop, fired, own))
        summary[name] = {"property": prop, "fired": fired, "own_property_fired": own, "expected": PROP == "all" or PROP in meta.get("checks_fired", []) or prop == PROP,
                         "fired_this_prop": fired is not None and (PROP in fired if PROP != "all" else bool(fired))}
        if update and fired is not None:
            meta["checks_fired"] = fired
            meta["own_property_check_fired"] = own
            meta["check_details"] = details[:12]
            json.dump(meta, open(os.path.join(d, "meta.json"), "w"), indent=1)
    print("seeded: %d changes, %d undetected" % (len(dirs), bad))
    if "--json" in sys.argv:
        json.dump(summary, open(sys.argv[sys.argv.index("--json") + 1], "w"), indent=1)
    sys.exit(1 if bad else 0)
if __name__ == "__main__":
    main()
