#!/usr/bin/env python3
"""Mutant / benign corpus runner.

usage: tools/corpus.py mutants|benign [--only NAME_SUBSTR] [--props C01,C02|all] [-j N] [--json OUT]

Each corpus entry (mutants/*.json, benign/*.json) is
  {"id": "...", "edits": [{"file": "x/cctp/...", "old": "...", "new": "..."}], "expect": ["C10", ...], "note": "..."}
Applied one at a time to a scratch copy of /repo's CURRENT working tree under $TMPDIR (never /repo or /verif),
one checker process per variant, removed immediately afterwards.
 - mutant: must load (type-check) and every property in "expect" must report a VIOLATION.
 - benign: must load and NO property may report a VIOLATION.
A fragment that no longer applies is 'skipped' (counted, not a failure).
"""
import json, os, shutil, subprocess, sys, tempfile, glob, re
from concurrent.futures import ThreadPoolExecutor

HERE = os.path.dirname(os.path.dirname(os.path.abspath(__file__)))
REPO = os.environ.get("VERIF_REPO", "/repo")
BIN = os.path.join(HERE, "bin", "cctpcheck")

def run_one(kind, entry, props):
    tmp = tempfile.mkdtemp(prefix="cctpvar-")
    try:
        tree = os.path.join(tmp, "tree")
        shutil.copytree(REPO, tree, ignore=shutil.ignore_patterns(".git"))
        if entry.get("patch"):
            pr = subprocess.run(["git", "apply", "--whitespace=nowarn", os.path.join(HERE, entry["patch"])], cwd=tree, capture_output=True, text=True)
            if pr.returncode != 0:
                return {"id": entry["id"], "status": "skipped", "why": "patch does not apply: " + pr.stderr[:200]}
        for e in entry.get("edits", []):
            path = os.path.join(tree, e["file"])
            if not os.path.exists(path):
                return {"id": entry["id"], "status": "skipped", "why": "file missing: " + e["file"]}
            s = open(path).read()
            if s.count(e["old"]) != 1:
                return {"id": entry["id"], "status": "skipped", "why": "fragment occurs %d times in %s" % (s.count(e["old"]), e["file"])}
            open(path, "w").write(s.replace(e["old"], e["new"]))
        ev = os.path.join(tmp, "ev"); rp = os.path.join(tmp, "rp")
        proc = subprocess.run([BIN, "-repo", tree, "-prop", props, "-evidence", ev, "-replaydir", rp,
                               "-known", os.path.join(HERE, "known_findings.json"), "-q"],
                              capture_output=True, text=True, timeout=900)
        out = proc.stdout + proc.stderr
        if "[loader]" in out and "load" in out and "C" in out and "type errors" in out or "packages.Load" in out:
            return {"id": entry["id"], "status": "invalid", "why": "variant does not type-check", "out": out[-2000:]}
        fired = sorted(set(re.findall(r"VIOLATION property=(C\d+)", out)))
        details = [l.strip() for l in out.splitlines() if l.strip().startswith(("VIOLATED", "UNDECIDED"))]
        if kind == "mutants":
            requested = None if props == "all" else set(props.split(","))
            missing = [p for p in entry.get("expect", []) if p not in fired and (requested is None or p in requested)]
            st = "killed" if not missing and fired else "survived"
            return {"id": entry["id"], "status": st, "fired": fired, "missing": missing, "details": details[:6]}
        else:
            st = "silent" if not fired else "false-alarm"
            if fired and set(fired) <= set(entry.get("expect_alarm", [])):
                st = "known-false-alarm"  # documented limitation (DESIGN §11), kept visible
            return {"id": entry["id"], "status": st, "fired": fired, "details": details[:10]}
    finally:
        shutil.rmtree(tmp, ignore_errors=True)

def main():
    kind = sys.argv[1]
    only = None; props = "all"; jobs = 8; outjson = None; expect = None
    args = sys.argv[2:]
    i = 0
    while i < len(args):
        if args[i] == "--only": only = args[i+1]; i += 2
        elif args[i] == "--props": props = args[i+1]; i += 2
        elif args[i] == "-j": jobs = int(args[i+1]); i += 2
        elif args[i] == "--json": outjson = args[i+1]; i += 2
        elif args[i] == "--expect": expect = args[i+1]; i += 2  # only entries that expect this property
        else: i += 1
    entries = []
    for f in sorted(glob.glob(os.path.join(HERE, kind, "*.json"))):
        data = json.load(open(f))
        if isinstance(data, dict): data = [data]
        for e in data:
            if only and only not in e["id"]: continue
            if expect and expect not in e.get("expect", []): continue
            entries.append(e)
    def work(e):
        p = props
        if props == "expect" and e.get("expect"):
            p = ",".join(e["expect"])
        elif props == "expect":
            p = "all"
        return run_one(kind, e, p)
    with ThreadPoolExecutor(max_workers=jobs) as ex:
        results = list(ex.map(work, entries))
    bad = 0
    counts = {}
    for r in results:
        counts[r["status"]] = counts.get(r["status"], 0) + 1
        if r["status"] in ("survived", "false-alarm", "invalid"):
            bad += 1
            print("%-12s %s  fired=%s missing=%s %s" % (r["status"].upper(), r["id"], r.get("fired"), r.get("missing"), r.get("why", "")))
            for d in r.get("details", []): print("      " + d[:300])
            if r["status"] == "invalid": print(r.get("out", "")[-800:])
        elif "-v" in sys.argv:
            print("%-12s %s  fired=%s" % (r["status"], r["id"], r.get("fired")))
            for d in r.get("details", [])[:3]: print("      " + d[:260])
    print("corpus %s: %s" % (kind, json.dumps(counts, sort_keys=True)))
    if outjson:
        json.dump({"kind": kind, "counts": counts, "results": results}, open(outjson, "w"), indent=1)
    sys.exit(1 if bad else 0)

if __name__ == "__main__":
    main()
