#!/usr/bin/env python3
"""Verify the white-box adversaries' holes and keep them as seeded changes WB<agent>-h<k>.

usage: tools/wb_verify.py <root with <agent>/hole<k>/ dirs> [-j N] [only ...]
Each hole directory holds patch.diff, a demo test, DEMO_PATH.txt and WHY.md (which names the
property broken). Verification is tools/seed_verify.py (suite passes with the patch, demo fails
with it and passes without, all checks run against the patched tree)."""
import os, re, shutil, subprocess, sys, json, glob
from concurrent.futures import ThreadPoolExecutor
HERE = os.path.dirname(os.path.dirname(os.path.abspath(__file__)))

def one(h):
    agent, hole = h.rstrip('/').split('/')[-2:]
    name = f"WB{agent}-{hole.replace('hole','h')}"
    why = open(os.path.join(h, 'WHY.md')).read() if os.path.exists(os.path.join(h, 'WHY.md')) else ''
    m = re.search(r'[Pp]ropert\w* broken[^C]{0,20}(C\d\d)', why) or re.search(r'\b(C\d\d)\b', why)
    if not m or not os.path.exists(os.path.join(h, 'patch.diff')):
        return name, 'no property / patch'
    pid = m.group(1)
    tmp = f"/tmp/wbseed-{name}/{pid}"
    shutil.rmtree(os.path.dirname(tmp), ignore_errors=True)
    os.makedirs(tmp)
    for f in glob.glob(os.path.join(h, '*')):
        if os.path.isfile(f) and (f.endswith('_test.go') or os.path.basename(f) in ('patch.diff', 'DEMO_PATH.txt')):
            shutil.copy(f, tmp)
    if why:
        open(os.path.join(tmp, 'NOTES.md'), 'w').write(why)
    p = subprocess.run([sys.executable, os.path.join(HERE, 'tools', 'seed_verify.py'), tmp, name], capture_output=True, text=True)
    shutil.rmtree(os.path.dirname(tmp), ignore_errors=True)
    mp = os.path.join(HERE, 'seeded', name, 'meta.json')
    if os.path.exists(mp):
        meta = json.load(open(mp))
        meta['source'] = 'white-box adversary sub-agent: read access to /verif (checker source, DESIGN, corpora), own scratch worktree; asked for a property-breaking change that the checks of the time did not report'
        json.dump(meta, open(mp, 'w'), indent=1)
        return name, f"kept property={pid} fired={meta.get('checks_fired')}"
    return name, 'NOT kept: ' + p.stdout[-400:].replace('\n', ' | ')

def main():
    root = sys.argv[1]; jobs = 3; only = []
    args = sys.argv[2:]
    i = 0
    while i < len(args):
        if args[i] == '-j': jobs = int(args[i+1]); i += 2
        else: only.append(args[i]); i += 1
    holes = sorted(glob.glob(os.path.join(root, '*', 'hole*')))
    if only: holes = [h for h in holes if any(o in h for o in only)]
    with ThreadPoolExecutor(jobs) as ex:
        for name, res in ex.map(one, holes):
            print(name, res, flush=True)

if __name__ == '__main__':
    main()
