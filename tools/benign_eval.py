#!/usr/bin/env python3
"""Evaluate behaviour-preserving refactorings written by sub-agents: for each /tmp/benout/<X>/patch<k>.diff
apply to a scratch worktree of /repo HEAD, build, run the pinned suite (must stay 288/288), then run all checks
(must stay silent). Kept ones are copied to /verif/benign/patches/<X><k>.diff and indexed in benign/agents.json."""
import json, os, re, shutil, subprocess, sys, glob
from concurrent.futures import ThreadPoolExecutor
HERE = os.path.dirname(os.path.dirname(os.path.abspath(__file__)))
ENV = dict(os.environ, GOWORK="off", GOFLAGS="-mod=mod", GOPROXY="off", GOSUMDB="off", GOTOOLCHAIN="local")
def sh(cmd, cwd=None):
    p = subprocess.run(cmd, shell=True, cwd=cwd, env=ENV, capture_output=True, text=True, timeout=1800)
    return p.returncode, p.stdout + p.stderr
def one(path):
    name = os.path.basename(os.path.dirname(path)) + os.path.basename(path).replace("patch", "").replace(".diff", "")
    wt = "/tmp/bv-" + name
    sh(f"git -C /repo worktree remove --force {wt}"); shutil.rmtree(wt, ignore_errors=True)
    rc, out = sh(f"git -C /repo worktree add --detach {wt} HEAD")
    res = {"name": name, "src": path}
    try:
        rc, out = sh(f"git apply --whitespace=nowarn {path}", cwd=wt)
        if rc != 0: res["status"] = "patch-does-not-apply"; return res
        rc, out = sh("go build ./...", cwd=wt)
        if rc != 0: res["status"] = "does-not-build"; res["out"] = out[-500:]; return res
        rc, out = sh("go test -vet=off -count=1 -json ./...", cwd=wt)
        p_ = len(re.findall(r'"Action":"pass","Package":"[^"]+","Test":"', out)); f_ = len(re.findall(r'"Action":"fail","Package":"[^"]+","Test":"', out))
        res["suite"] = [p_, f_]
        if f_ or p_ < 288: res["status"] = "suite-fails"; return res
        ev = "/tmp/bv-ev-" + name
        rc, out = sh(f"{HERE}/bin/cctpcheck -repo {wt} -prop all -q -evidence {ev}/ev -replaydir {ev}/rp -known {HERE}/known_findings.json")
        shutil.rmtree(ev, ignore_errors=True)
        res["fired"] = sorted(set(re.findall(r"VIOLATION property=(C\d+)", out)))
        res["details"] = [l.strip()[:400] for l in out.splitlines() if l.strip().startswith(("VIOLATED", "UNDECIDED"))][:10]
        res["status"] = "silent" if not res["fired"] else "ALARM"
        return res
    finally:
        sh(f"git -C /repo worktree remove --force {wt}"); shutil.rmtree(wt, ignore_errors=True)
def main():
    root = sys.argv[1]
    only = sys.argv[2:] 
    paths = sorted(glob.glob(os.path.join(root, "*", "patch*.diff")))
    if only: paths = [p for p in paths if os.path.basename(os.path.dirname(p)) in only]
    with ThreadPoolExecutor(max_workers=4) as ex:
        results = list(ex.map(one, paths))
    for r in results:
        print("%-6s %-22s suite=%s fired=%s" % (r["name"], r["status"], r.get("suite"), r.get("fired")))
        for d in r.get("details", []): print("        " + d)
    json.dump(results, open("/tmp/benign_eval.json", "w"), indent=1)
if __name__ == "__main__":
    main()
