#!/usr/bin/env python3
"""thorough tier for one property: quick rules + whole-program cross-checks (in the checker), then the
property's mutant corpus, the whole benign corpus and the kept seeded changes, merged into the evidence file.
The exit code speaks only about /repo's tree."""
import json, os, subprocess, sys, tempfile, glob
HERE = os.path.dirname(os.path.dirname(os.path.abspath(__file__)))
REPO = os.environ.get("VERIF_REPO", "/repo")

def main():
    pid = sys.argv[1]
    ev = os.path.join(HERE, "evidence", pid + ".json")
    rc = subprocess.call([os.path.join(HERE, "bin", "cctpcheck"), "-repo", REPO, "-prop", pid, "-tier", "thorough", "-evidence", os.path.join(HERE, "evidence"),
                          "-replaydir", os.path.join(HERE, "replay"), "-known", os.path.join(HERE, "known_findings.json")])
    tmp = tempfile.mkdtemp(prefix="cctpthorough-")
    corpus = {}
    try:
        for kind, extra in (("mutants", ["--expect", pid, "--props", pid]), ("benign", ["--props", pid])):
            out = os.path.join(tmp, kind + ".json")
            subprocess.run([os.path.join(HERE, "tools", "corpus.py"), kind, "--json", out, "-j", "10"] + extra, stdout=subprocess.DEVNULL, stderr=subprocess.DEVNULL)
            if os.path.exists(out):
                d = json.load(open(out))
                bad = [r["id"] for r in d["results"] if r["status"] in ("survived", "false-alarm", "invalid")]
                corpus[kind] = {"counts": d["counts"], "total": len(d["results"]), "not_ok": bad,
                                "sample": [{"id": r["id"], "status": r["status"], "fired": r.get("fired")} for r in d["results"][:5]]}
        out = os.path.join(tmp, "seeded.json")
        subprocess.run([os.path.join(HERE, "tools", "seed_recheck.py"), "--prop", pid, "--json", out], stdout=subprocess.DEVNULL, stderr=subprocess.DEVNULL)
        if os.path.exists(out):
            corpus["seeded"] = json.load(open(out))
    finally:
        subprocess.call(["rm", "-rf", tmp])
    if os.path.exists(ev):
        e = json.load(open(ev))
        e["coverage"]["corpus"] = corpus
        e["coverage"]["corpus_note"] = ("mutants: variants of /repo's current tree that must make this check fire; benign: behaviour-preserving variants that must leave it silent; "
                                        "seeded: independently written property-breaking changes (seeded/*/patch.diff). Corpus results do not affect the exit code.")
        json.dump(e, open(ev, "w"), indent=1)
    for kind, v in corpus.items():
        if kind == "seeded":
            exp = [k for k, x in v.items() if x.get("expected")]
            miss = [k for k, x in v.items() if x.get("expected") and not x.get("fired_this_prop")]
            print("thorough %s: seeded changes expected to fire %d, missed %s" % (pid, len(exp), miss))
        else:
            print("thorough %s: %s %s not-ok=%s" % (pid, kind, json.dumps(v["counts"], sort_keys=True), v["not_ok"]))
    sys.exit(rc)

if __name__ == "__main__":
    main()
