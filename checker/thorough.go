package main

import (
	"bufio"
	"bytes"
	"fmt"
	"os/exec"
	"path/filepath"
	"regexp"
	"sort"
	"strconv"
	"strings"

	"golang.org/x/tools/go/callgraph"
	"golang.org/x/tools/go/callgraph/cha"
	"golang.org/x/tools/go/callgraph/vta"
	"golang.org/x/tools/go/ssa"
	"golang.org/x/tools/go/ssa/ssautil"
)

var vtaGraph *callgraph.Graph

func (p *Prog) vta() *callgraph.Graph {
	if vtaGraph == nil {
		vtaGraph = vta.CallGraph(ssautil.AllFunctions(p.SSA), cha.CallGraph(p.SSA))
	}
	return vtaGraph
}

// vtaCrossCheck (thorough tier): in the whole-program VTA call graph — dependencies
// included — every caller of a module function that touches the store, the ledger or the
// event manager directly is module code already seen by the static call graph the rules use.
func vtaCrossCheck(p *Prog, r *Report) {
	g := p.vta()
	n := 0
	for _, fn := range p.Funcs {
		direct := false
		for _, e := range p.effects(fn).direct {
			switch e.Kind {
			case "W", "D", "LEDGER", "EVENT":
				direct = true
			}
		}
		if !direct {
			continue
		}
		node := g.Nodes[fn]
		if node == nil {
			continue
		}
		static := map[string]bool{}
		for c := range p.callersOf(fn) {
			static[funcName(c)] = true
		}
		var foreign, missed []string
		for _, in := range node.In {
			caller := in.Caller.Func
			if caller == nil {
				continue
			}
			// wrappers/thunks synthesised for interface dispatch belong to the callee's type
			if caller.Synthetic != "" {
				continue
			}
			if !p.inModuleCode(caller) {
				foreign = append(foreign, caller.String())
				continue
			}
			if !static[funcName(caller)] && funcName(caller) != funcName(fn) {
				missed = append(missed, funcName(caller))
			}
		}
		sort.Strings(foreign)
		sort.Strings(missed)
		n++
		// tx handlers and queries are called by the generated service handlers (module package, generated files): expected
		var realForeign []string
		for _, f := range foreign {
			if strings.Contains(f, "noble-cctp/x/cctp/types._Msg_") || strings.Contains(f, "noble-cctp/x/cctp/types._Query_") || strings.Contains(f, "noble-cctp/x/cctp.AppModule") {
				continue
			}
			realForeign = append(realForeign, f)
		}
		r.check(len(realForeign) == 0 && len(missed) == 0, "VTA-callers", "VTA-callers/"+funcName(fn), p.pos(fn.Pos()),
			fmt.Sprintf("%d VTA callers, all module code known to the static graph", len(node.In)),
			fmt.Sprintf("whole-program call graph has callers the rules do not see: outside module code %v, dynamic in module %v", realForeign, missed))
	}
	r.floor("vta-checked-functions", n, 25)
}

var bceLine = regexp.MustCompile(`^(\S+\.go):(\d+):(\d+): Found (IsInBounds|IsSliceInBounds)`)

// bceCrossRef (thorough tier, C20): ask the gc compiler which bounds checks it could not
// eliminate in the module packages (a compile of /repo's current tree, nothing is run) and
// require that every such site in non-generated, non-CLI-command code lies on a line where
// the inventory has a slice/index site — so the inventory is not missing a construct.
func bceCrossRef(p *Prog, r *Report, sites []panicSite, reach map[*ssa.Function]bool) {
	cmd := exec.Command("go", "build", "-gcflags="+modPath+"/x/...=-d=ssa/check_bce/debug=1", "./x/...")
	cmd.Dir = p.Root
	cmd.Env = goEnv()
	var out bytes.Buffer
	cmd.Stdout = &out
	cmd.Stderr = &out
	if err := cmd.Run(); err != nil {
		r.fail("BCE-crossref", "BCE-crossref/compile", "", "go build with the BCE debug flag failed: "+err.Error()+": "+lastLines(out.String(), 5))
		return
	}
	known := map[string]bool{}
	for _, s := range sites {
		if s.Kind != "slice" && s.Kind != "index" {
			continue
		}
		if !s.In.Pos().IsValid() {
			continue
		}
		ps := p.Fset.Position(s.In.Pos())
		rel, _ := filepath.Rel(p.Root, ps.Filename)
		known[rel+":"+strconv.Itoa(ps.Line)] = true
	}
	// lines carrying a call: the compiler attributes the bounds checks of an inlined callee
	// (strings.TrimPrefix, hex.EncodeToString, big.Int.FillBytes, module helpers) to the call site
	callLines := map[string]bool{}
	for fn := range reach {
		for _, b := range fn.Blocks {
			for _, in := range b.Instrs {
				if call, ok := in.(*ssa.Call); ok && call.Pos().IsValid() {
					ps := p.Fset.Position(call.Pos())
					rel, _ := filepath.Rel(p.Root, ps.Filename)
					callLines[rel+":"+strconv.Itoa(ps.Line)] = true
				}
			}
		}
	}
	// lines belonging to reachable functions
	type span struct{ lo, hi int }
	reachSpans := map[string][]span{}
	for fn := range reach {
		if fn.Syntax() == nil {
			continue
		}
		a, b := p.Fset.Position(fn.Syntax().Pos()), p.Fset.Position(fn.Syntax().End())
		rel, _ := filepath.Rel(p.Root, a.Filename)
		reachSpans[rel] = append(reachSpans[rel], span{a.Line, b.Line})
	}
	n, inReach, inlined := 0, 0, 0
	var unknown []string
	sc := bufio.NewScanner(&out)
	for sc.Scan() {
		m := bceLine.FindStringSubmatch(sc.Text())
		if m == nil {
			continue
		}
		file := m[1]
		if isGeneratedName(file) {
			continue
		}
		n++
		line, _ := strconv.Atoi(m[2])
		covered := false
		for _, sp := range reachSpans[file] {
			if sp.lo <= line && line <= sp.hi {
				covered = true
			}
		}
		if !covered {
			continue // not reachable from a C20 entry point (cobra command closures, InitGenesis, init functions)
		}
		inReach++
		if known[file+":"+m[2]] {
			continue
		}
		if callLines[file+":"+m[2]] {
			inlined++
			continue
		}
		unknown = append(unknown, fmt.Sprintf("%s:%s:%s %s", file, m[2], m[3], m[4]))
	}
	r.Extra["compiler_bce_sites_from_inlined_callees"] = inlined
	r.check(len(unknown) == 0, "BCE-crossref", "BCE-crossref/compiler-unproven-sites-are-inventoried", "",
		fmt.Sprintf("compiler left %d bounds checks in non-generated module code, %d in functions reachable from the entry points, all on lines the inventory judged", n, inReach),
		fmt.Sprintf("bounds checks the compiler could not eliminate at lines the inventory has no site for: %v", unknown))
	r.floor("compiler-bce-sites", n, 20)
	r.Extra["compiler_bce_sites"] = n
	r.Extra["compiler_bce_sites_in_reach"] = inReach
}

func lastLines(s string, n int) string {
	lines := strings.Split(strings.TrimSpace(s), "\n")
	if len(lines) > n {
		lines = lines[len(lines)-n:]
	}
	return strings.Join(lines, " | ")
}
