package main

import (
	"regexp"
	"fmt"
	"strings"

	"golang.org/x/tools/go/ssa"
)

func init() { register("C19", "other", runC19) }

type collection struct {
	name, region, zero string
	accessors          map[string]string // accessor -> "KIND keyterm"
	keyFn, keyShape    string
	getAll             string
}

var collections = []collection{
	{"attesters", "Attester/value/", "types.Attester{}", map[string]string{
		"GetAttester": "R types.AttesterKey([]byte(p2))", "SetAttester": "W types.AttesterKey([]byte(p2.Attester))", "DeleteAttester": "D types.AttesterKey([]byte(p2))"},
		"types.AttesterKey", `cat(p0,[]byte("/"))`, "GetAllAttesters"},
	{"burn-limits", "PerMessageBurnLimit/value/", "types.PerMessageBurnLimit{}", map[string]string{
		"GetPerMessageBurnLimit": "R types.PerMessageBurnLimitKey(p2)", "SetPerMessageBurnLimit": "W types.PerMessageBurnLimitKey(p2.Denom)"},
		"types.PerMessageBurnLimitKey", `cat([]byte(p0),[]byte("/"))`, "GetAllPerMessageBurnLimits"},
	{"token-pairs", "TokenPair/value/", "types.TokenPair{}", map[string]string{
		"GetTokenPair": "R types.TokenPairKey(p2,p3)", "SetTokenPair": "W types.TokenPairKey(p2.RemoteDomain,p2.RemoteToken)", "DeleteTokenPair": "D types.TokenPairKey(p2,p3)"},
		"types.TokenPairKey", `cat(ethcrypto.Keccak256(cat(be32(p0),p1)),[]byte("/"))`, "GetAllTokenPairs"},
	{"messengers", "RemoteTokenMessenger/value/", "types.RemoteTokenMessenger{}", map[string]string{
		"GetRemoteTokenMessenger": "R types.RemoteTokenMessengerKey(p2)", "SetRemoteTokenMessenger": "W types.RemoteTokenMessengerKey(p2.DomainId)", "DeleteRemoteTokenMessenger": "D types.RemoteTokenMessengerKey(p2)"},
		"types.RemoteTokenMessengerKey", `cat(be32(p0),[]byte("/"))`, "GetRemoteTokenMessengers"},
	{"used-nonces", "UsedNonce/value/", "", map[string]string{
		"GetUsedNonce": "R types.UsedNonceKey(p2.Nonce,p2.SourceDomain)", "SetUsedNonce": "W types.UsedNonceKey(p2.Nonce,p2.SourceDomain)"},
		"types.UsedNonceKey", `cat(be32(p1),be64(p0),[]byte("/"))`, "GetAllUsedNonces"},
}

func runC19(p *Prog, r *Report, tier string) {
	r.Rule = "K-agree per collection (getter/setter/deleter key terms and key-function shape), stored value = the value given, existence guards (G-cut/G-fail) of add/remove handlers, query->getter wiring (T-eq) for 19 queries, paginate prefix = collection prefix"
	r.Explanation = "Decided: for each of the five keyed collections, the getter, the setter and the deleter address the same prefix with the same key function applied to the same index fields (setter: the value's own fields), and the key functions are injective by construction " +
		"(terminated string; fixed-width big-endian domain; hash of fixed-width domain || 32-byte token with the 32-byte length guard in link/unlink; fixed-width domain and nonce); the setter stores the marshalled value it is given; " +
		"link/add/enable write only when the key is absent, unlink/remove/disable delete only when it is present and delete the key they looked up; each single-item query calls its collection's getter with the request's fields in the right positions and returns the value iff found; " +
		"each list query paginates exactly its collection's prefix, unmarshals into the collection's value type and appends in visit order, returning the page response; the nine scalar queries return the corresponding getter's value (or the constants 4 / 0 / 0). " +
		"Not decided: query.Paginate's handling of page sizes, offsets and key cursors and the store's iteration, which the 'every entry exactly once, correct total' clause depends on."
	r.Assumptions = []string{"go/ssa faithfully represents the module code", "cosmos-sdk query.Paginate visits every entry under the prefix store exactly once per full traversal and counts correctly", "Keccak-256 is collision-free on the keyed inputs"}
	r.Trusted = r.Assumptions

	// ---- K-agree
	for _, c := range collections {
		kAgree(p, r, c.name, c.region, c.accessors)
		if fc := p.fc(r, p.Func("types."+strings.TrimPrefix(c.keyFn, "types.")), c.keyFn, nil); fc != nil {
			for _, ret := range allReturns(fc.fn) {
				fc.teq("K-agree", "key-shape", fc.term(ret.Results[0], ret), c.keyShape, p.instrPos(ret))
			}
		}
		for acc, w := range c.accessors {
			if !strings.HasPrefix(w, "W ") {
				continue
			}
			fn := p.Func("keeper.Keeper." + acc)
			fc := p.fc(r, fn, acc, nil)
			if fc == nil {
				continue
			}
			for _, e := range p.own(fn) {
				if e.Kind == "W" {
					fc.teq("T-eq", "stored-value", e.Val.String(), "k.cdc.MustMarshal(&p2)", p.instrPos(e.In))
				}
			}
		}
		if c.zero != "" {
			for acc, w := range c.accessors {
				if strings.HasPrefix(w, "R ") {
					foundGetterContract(p, r, acc, c.region, strings.TrimPrefix(w, "R "), c.zero)
				}
			}
		}
		getAllContract(p, r, c.getAll, c.region, "")
	}

	// ---- existence guards
	type guard struct {
		handler, lookup string
		mustExist       bool
		write           string
		writeArgs       []string
	}
	guards := []guard{
		{"LinkTokenPair", "k.GetTokenPair(ctx,p2.RemoteDomain,p2.RemoteToken)#1", false, "k.SetTokenPair", []string{"ctx", "types.TokenPair{RemoteDomain:p2.RemoteDomain,RemoteToken:p2.RemoteToken,LocalToken:strings.ToLower(p2.LocalToken)}"}},
		{"UnlinkTokenPair", "k.GetTokenPair(ctx,p2.RemoteDomain,p2.RemoteToken)#1", true, "k.DeleteTokenPair", []string{"ctx", "p2.RemoteDomain", "p2.RemoteToken"}},
		{"AddRemoteTokenMessenger", "k.GetRemoteTokenMessenger(ctx,p2.DomainId)#1", false, "k.SetRemoteTokenMessenger", []string{"ctx", "types.RemoteTokenMessenger{DomainId:p2.DomainId,Address:p2.Address}"}},
		{"RemoveRemoteTokenMessenger", "k.GetRemoteTokenMessenger(ctx,p2.DomainId)#1", true, "k.DeleteRemoteTokenMessenger", []string{"ctx", "p2.DomainId"}},
		{"EnableAttester", "k.GetAttester(ctx,p2.Attester)#1", false, "k.SetAttester", []string{"ctx", "types.Attester{Attester:p2.Attester}"}},
		{"DisableAttester", "k.GetAttester(ctx,p2.Attester)#1", true, "k.DeleteAttester", []string{"ctx", "p2.Attester"}},
		{"SetMaxBurnAmountPerMessage", "", false, "k.SetPerMessageBurnLimit", []string{"ctx", "types.PerMessageBurnLimit{Denom:strings.ToLower(p2.LocalToken),Amount:p2.Amount}"}},
	}
	for _, g := range guards {
		c := p.fc(r, handlerFn(p, g.handler), g.handler, nil)
		if c == nil {
			continue
		}
		w := c.oneCall("T-eq", g.write)
		if w == nil {
			continue
		}
		args := c.args(w)
		for i, want := range g.writeArgs {
			got := ""
			if i < len(args) {
				got = keyNorm(args[i])
			}
			c.teq("T-eq", fmt.Sprintf("%s.arg%d", g.write, i), got, want, p.instrPos(w))
		}
		c.mustPass("G-mpt", g.write+"-before-success", []ssa.Instruction{w}, c.successReturns())
		if g.lookup == "" {
			continue
		}
		a := A(g.lookup)
		if !g.mustExist {
			a.Pol = false
		}
		c.requireCut("G-cut", "existence", []Atom{a}, union([]ssa.Instruction{w}, c.successReturns()))
		c.requireFailArm("G-fail", "existence", []Atom{a}, true)
	}
	// token length guards (injectivity of the hashed pair key needs a fixed-length token)
	rt := p.globalInit("keeper.remoteTokenNumBytes")
	r.check(rt != nil && rt.String() == "32", "K-agree", "K-agree/token-pairs/remoteTokenNumBytes==32", "", "remoteTokenNumBytes is initialised to 32", fmt.Sprintf("remoteTokenNumBytes = %v", rt))
	for _, h := range []string{"LinkTokenPair", "UnlinkTokenPair"} {
		if c := p.fc(r, handlerFn(p, h), h, nil); c != nil {
			g := []Atom{A("(keeper.remoteTokenNumBytes == len(p2.RemoteToken))"), A("(32 == len(p2.RemoteToken))")}
			c.requireCut("G-cut", "token-is-32-bytes", g, union(c.effectSites(), c.successReturns()))
		}
	}
	if c := p.fc(r, handlerFn(p, "AddRemoteTokenMessenger"), "AddRemoteTokenMessenger", nil); c != nil {
		c.requireCut("G-cut", "address-is-32-bytes", []Atom{A("(32 == len(p2.Address))")}, union(c.effectSites(), c.successReturns()))
	}

	// ---- single-item queries
	single := []struct{ q, getter, args, resp, field string }{
		{"Attester", "k.GetAttester", "ctx,p2.Attester", "types.QueryGetAttesterResponse", "Attester"},
		{"PerMessageBurnLimit", "k.GetPerMessageBurnLimit", "ctx,p2.Denom", "types.QueryGetPerMessageBurnLimitResponse", "BurnLimit"},
		{"RemoteTokenMessenger", "k.GetRemoteTokenMessenger", "ctx,p2.DomainId", "types.QueryRemoteTokenMessengerResponse", "RemoteTokenMessenger"},
		{"TokenPair", "k.GetTokenPairHex", "ctx,p2.RemoteDomain,p2.RemoteToken", "types.QueryGetTokenPairResponse", "Pair"},
		{"BurningAndMintingPaused", "k.GetBurningAndMintingPaused", "ctx", "types.QueryGetBurningAndMintingPausedResponse", "Paused"},
		{"SendingAndReceivingMessagesPaused", "k.GetSendingAndReceivingMessagesPaused", "ctx", "types.QueryGetSendingAndReceivingMessagesPausedResponse", "Paused"},
		{"MaxMessageBodySize", "k.GetMaxMessageBodySize", "ctx", "types.QueryGetMaxMessageBodySizeResponse", "Amount"},
		{"NextAvailableNonce", "k.GetNextAvailableNonce", "ctx", "types.QueryGetNextAvailableNonceResponse", "Nonce"},
		{"SignatureThreshold", "k.GetSignatureThreshold", "ctx", "types.QueryGetSignatureThresholdResponse", "Amount"},
	}
	for _, s := range single {
		c := p.fc(r, p.Func("keeper.Keeper."+s.q), "query."+s.q, nil)
		if c == nil {
			continue
		}
		call := s.getter + "(" + s.args + ")"
		g := []Atom{A(call + "#1")}
		c.requireCut("G-cut", "returns-only-when-found", g, c.successReturns())
		c.requireFailArm("G-fail", "returns-only-when-found", g, false)
		n := 0
		for _, sr := range c.successResults() {
			ret := sr.ret
			n++
			c.checkLit("T-eq", "response", sr.vals[0], s.resp, map[string]string{s.field: call + "#0"}, p.instrPos(ret))
		}
		r.check(n == 1, "T-eq", "T-eq/query."+s.q+"/returns", c.pos(), "one success return", fmt.Sprintf("%d success returns", n))
		// read-only
		for _, e := range p.closure(c.fn) {
			if e.Kind == "W" || e.Kind == "D" || e.Kind == "LEDGER" || e.Kind == "EVENT" {
				r.fail("F-set", "F-set/query."+s.q+"/"+e.String(), p.instrPos(e.In), "query has effect "+e.String())
			}
		}
	}
	// the scalar getters behind those queries: found iff the stored bytes are present (non-nil),
	// value = decode(stored bytes) — so "the query returns the current value" also for values that
	// marshal to zero bytes (e.g. a configured size of 0)
	flagGetterContract(p, r, flagBM)
	flagGetterContract(p, r, flagSR)
	for _, g := range []struct{ getter, region, zero string }{
		{"GetMaxMessageBodySize", "MaxMessageBodySize/value/", "types.MaxMessageBodySize{}"},
		{"GetNextAvailableNonce", "NextAvailableNonce/value/", "types.Nonce{}"},
		{"GetSignatureThreshold", "SignatureThreshold/value/", "types.SignatureThreshold{}"},
	} {
		foundGetterContract(p, r, g.getter, g.region, fmt.Sprintf("[]byte(%q)", g.region), g.zero)
	}
	for _, role := range []struct{ role, getter string }{{"owner", "GetOwner"}, {"attester-manager", "GetAttesterManager"}, {"pauser", "GetPauser"}, {"token-controller", "GetTokenController"}} {
		roleGetterContract(p, r, role.role, role.getter)
	}
	// hex lookup of token pairs pads to 32 bytes and delegates to the byte getter
	if c := p.fc(r, p.Func("keeper.Keeper.GetTokenPairHex"), "GetTokenPairHex", [][2]string{{"PAD", "types.RemoteTokenPadded(p3)"}}); c != nil {
		for _, ret := range allReturns(c.fn) {
			v, f := c.term(ret.Results[0], ret), c.term(ret.Results[1], ret)
			okPair := (v == "types.TokenPair{}" && f == "false") || (v == "k.GetTokenPair(ctx,p2,PAD#0)#0" && f == "k.GetTokenPair(ctx,p2,PAD#0)#1")
			r.check(okPair, "T-eq", "T-eq/GetTokenPairHex/return/"+f, p.instrPos(ret), "returns ("+v+", "+f+")", "unexpected return pair ("+v+", "+f+")")
		}
		c.requireCut("G-cut", "pad-ok", []Atom{A("(nil == PAD#1)")}, c.instrs(c.calls("k.GetTokenPair")))
	}
	// UsedNonce single query (bool getter)
	if qc := p.fc(r, p.Func("keeper.Keeper.UsedNonce"), "query.UsedNonce", nil); qc != nil {
		n := "types.Nonce{SourceDomain:p2.SourceDomain,Nonce:p2.Nonce}"
		g := []Atom{A("k.GetUsedNonce(ctx," + n + ")")}
		qc.requireCut("G-cut", "returns-only-when-found", g, qc.successReturns())
		qc.requireFailArm("G-fail", "returns-only-when-found", g, false)
		for _, sr := range qc.successResults() {
			ret := sr.ret
			qc.checkLit("T-eq", "response", sr.vals[0], "types.QueryGetUsedNonceResponse", map[string]string{"Nonce": n}, p.instrPos(ret))
		}
	}
	// ---- list queries
	lists := []struct{ q, region, resp, field, elem string }{
		{"Attesters", "Attester/value/", "types.QueryAllAttestersResponse", "Attesters", "types.Attester"},
		{"PerMessageBurnLimits", "PerMessageBurnLimit/value/", "types.QueryAllPerMessageBurnLimitsResponse", "BurnLimits", "types.PerMessageBurnLimit"},
		{"RemoteTokenMessengers", "RemoteTokenMessenger/value/", "types.QueryRemoteTokenMessengersResponse", "RemoteTokenMessengers", "types.RemoteTokenMessenger"},
		{"TokenPairs", "TokenPair/value/", "types.QueryAllTokenPairsResponse", "TokenPairs", "types.TokenPair"},
		{"UsedNonces", "UsedNonce/value/", "types.QueryAllUsedNoncesResponse", "UsedNonces", "types.Nonce"},
	}
	for _, l := range lists {
		fn := p.Func("keeper.Keeper." + l.q)
		c := p.fc(r, fn, "query."+l.q, [][2]string{{"PAGE", "query.Paginate(§)"}})
		if c == nil {
			continue
		}
		// exactly one pagination call (in the query or in a new helper it delegates to), over
		// this collection's store, driven by the request's page, with a callback closure
		var cbFn *ssa.Function
		if pc := c.oneCall("T-eq", "query.Paginate"); pc != nil {
			a := c.argTerms(pc)
			if len(a) == 3 {
				c.teq("T-eq", "paginate.store", a[0].String(), prefixStore(l.region), p.instrPos(pc))
				c.teq("T-eq", "paginate.page-request", a[1].String(), "p2.Pagination", p.instrPos(pc))
				if a[2].Op == "closure" && a[2].Fn != nil {
					cbFn = a[2].Fn
				}
			}
		}
		var effs []string
		for _, e := range p.closure(fn) {
			switch e.Kind {
			case "R", "ITER", "PAGE", "W", "D", "LEDGER", "EVENT":
				effs = append(effs, e.Kind+" "+e.Region)
			}
		}
		r.check(len(effs) == 1 && effs[0] == "PAGE "+l.region, "T-eq", "T-eq/query."+l.q+"/prefix", c.pos(), "paginates exactly "+l.region, fmt.Sprintf("effects: %v", effs))
		g := []Atom{A("(nil == PAGE#1)")}
		c.requireCut("G-cut", "paginate-ok", g, c.successReturns())
		c.requireFailArm("G-fail", "paginate-ok", g, false)
		for _, sr := range c.successResults() {
			ret := sr.ret
			_, fields, ok := c.litFields(sr.vals[0])
			if !ok {
				r.undecided("T-eq", "T-eq/query."+l.q+"/response", p.instrPos(ret), "response is not a literal")
				continue
			}
			c.teq("T-eq", "response.Pagination", fields["Pagination"], "PAGE#0", p.instrPos(ret))
			lv := fields[l.field]
			cbName := "?"
			if cbFn != nil {
				cbName = funcName(cbFn)
			}
			// exactly one assignment of the captured list, in the callback: list = append(list, decoded value)
			okList := regexp.MustCompile(`^acc\(nil;` + regexp.QuoteMeta(cbName) + `:append\(fv:([A-Za-z_][A-Za-z_0-9]*),\[decode\(p1\)\]\)\)$`).MatchString(lv)
			r.check(okList, "T-eq", "T-eq/query."+l.q+"/response."+l.field, p.instrPos(ret), "list = every visited value decoded and appended", "list field is "+lv)
		}
		// the callback decodes the VALUE (p1) into the collection's element type and propagates decode errors
		if cbFn != nil {
			cb := p.fc(r, cbFn, "query."+l.q+"$callback", nil)
			if cb != nil {
				un := cb.calls("k.cdc.Unmarshal")
				if len(un) == 1 {
					a := cb.args(un[0])
					cb.teq("T-eq", "decodes-value", a[0], "p1", p.instrPos(un[0]))
					cb.teq("T-eq", "element-type", a[1], "&"+l.elem+"{}", p.instrPos(un[0]))
					ge := []Atom{A("(k.cdc.Unmarshal(p1,&" + l.elem + "{}) == nil)")}
					cb.requireCut("G-cut", "decode-ok", ge, cb.successReturns())
					// every visited entry is appended: the store into the captured list lies on every success path
					var appends []ssa.Instruction
					for _, b := range cb.fn.Blocks {
						for _, in := range b.Instrs {
							if st, ok := in.(*ssa.Store); ok {
								if _, isFV := st.Addr.(*ssa.FreeVar); isFV {
									appends = append(appends, st)
								}
							}
						}
					}
					cb.mustPass("G-mpt", "every-entry-appended", appends, cb.successReturns())
					cb.exact("G-exact", []Atom{A("!(k.cdc.Unmarshal(p1,&" + l.elem + "{}) == nil)")})
				} else {
					r.fail("T-eq", "T-eq/query."+l.q+"/callback-decode", cb.pos(), fmt.Sprintf("%d Unmarshal calls in the pagination callback", len(un)))
				}
			}
		} else {
			r.fail("T-eq", "T-eq/query."+l.q+"/callback", c.pos(), "the pagination callback is not a closure written at the call")
		}
	}
	// ---- scalar constant queries and Roles
	for _, s := range []struct{ q, resp, field, val string }{
		{"LocalDomain", "types.QueryLocalDomainResponse", "DomainId", "4"},
		{"LocalMessageVersion", "types.QueryLocalMessageVersionResponse", "Version", ""},
		{"BurnMessageVersion", "types.QueryBurnMessageVersionResponse", "Version", ""},
	} {
		c := p.fc(r, p.Func("keeper.Keeper."+s.q), "query."+s.q, nil)
		if c == nil {
			continue
		}
		for _, sr := range c.successResults() {
			ret := sr.ret
			want := map[string]string{}
			if s.val != "" {
				want[s.field] = s.val
			}
			c.checkLit("T-eq", "response", sr.vals[0], s.resp, want, p.instrPos(ret))
		}
	}
	if c := p.fc(r, p.Func("keeper.Keeper.Roles"), "query.Roles", nil); c != nil {
		for _, sr := range c.successResults() {
			ret := sr.ret
			c.checkLit("T-eq", "response", sr.vals[0], "types.QueryRolesResponse", map[string]string{
				"Owner": "k.GetOwner(ctx)", "AttesterManager": "k.GetAttesterManager(ctx)", "Pauser": "k.GetPauser(ctx)", "TokenController": "k.GetTokenController(ctx)"}, p.instrPos(ret))
		}
	}
	r.floor("queries-wired", len(single)+len(lists)+3+1+1, 19)
}
