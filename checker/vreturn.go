package main

import (
	"fmt"
	"go/token"
	"go/types"

	"golang.org/x/tools/go/ssa"
)

// vreturn.go: "virtual returns" of an accessor whose body delegates to NEW helpers.
//
// Getter contracts are stated per return: `(zero, false)` on the not-found exit,
// `(decode(GET), true)` on the found exit, the latter only behind `GET != nil`. A
// de-duplicating refactoring turns the two exits into one (`found = k.getAndUnmarshal(store,
// key, &val); return val, found`, or `return k.getRole(ctx, key)`). The contract is then
// read off the helper's exits instead:
//   - pass-through:   `return H(args)`          -> one virtual return per return of H;
//   - out-parameter:  `ok := H(.., &v); return v, ok` -> one per return of H, the value
//     being what H's (single, must-execute) decode through that parameter left in v, or
//     v's zero value when no write through the parameter can precede that exit.
// Each virtual return carries the function and branch atoms (in the accessor's frame)
// in which its own reachability is decided.

type vret struct {
	vals []string
	at   *ssa.Return
	cfn  *ssa.Function
	ifs  []ifInfo
}

func (c *FC) virtualReturns() []vret {
	var out []vret
	for _, ret := range allReturns(c.fn) {
		out = append(out, c.expandReturn(c.fn, c.x, nil, ret, 0)...)
	}
	return out
}

func (c *FC) frameTerm(x *TX, env []*Term, v ssa.Value, at ssa.Instruction) *Term {
	t := x.Of(v, at)
	if x.fn != c.fn {
		t = substTerm(markHelperCounters(t), env)
	}
	return t
}

func (c *FC) frameIfs(fn *ssa.Function, x *TX, env []*Term) []ifInfo {
	if fn == c.fn {
		return c.ifs
	}
	var out []ifInfo
	for _, b := range fn.Blocks {
		if len(b.Instrs) == 0 {
			continue
		}
		if iff, ok := b.Instrs[len(b.Instrs)-1].(*ssa.If); ok {
			a := atomOfTerm(c.frameTerm(x, env, iff.Cond, iff))
			a.Key = c.sh(a.Key)
			out = append(out, ifInfo{in: iff, atom: a})
		}
	}
	return out
}

// passthroughCall: the results are exactly the results of one call, in order.
func passthroughCall(results []ssa.Value) (*ssa.Call, bool) {
	if len(results) == 1 {
		call, ok := results[0].(*ssa.Call)
		return call, ok
	}
	var call *ssa.Call
	for i, r := range results {
		ex, ok := r.(*ssa.Extract)
		if !ok || ex.Index != i {
			return nil, false
		}
		cl, ok := ex.Tuple.(*ssa.Call)
		if !ok || (call != nil && cl != call) {
			return nil, false
		}
		call = cl
	}
	if call == nil {
		return nil, false
	}
	if tup, ok := call.Type().(*types.Tuple); !ok || tup.Len() != len(results) {
		return nil, false
	}
	return call, true
}

func (c *FC) callEnv(x *TX, env []*Term, call *ssa.Call) []*Term {
	var henv []*Term
	for _, a := range call.Call.Args {
		henv = append(henv, c.frameTerm(x, env, a, call))
	}
	return henv
}

func (c *FC) expandReturn(fn *ssa.Function, x *TX, env []*Term, ret *ssa.Return, depth int) []vret {
	plain := func() []vret {
		vr := vret{at: ret, cfn: fn, ifs: c.frameIfs(fn, x, env)}
		for _, v := range ret.Results {
			vr.vals = append(vr.vals, c.sh(c.frameTerm(x, env, v, ret).String()))
		}
		return []vret{vr}
	}
	if depth >= 3 {
		return plain()
	}
	// pass-through of a new helper's results
	if call, ok := passthroughCall(ret.Results); ok {
		if h := call.Call.StaticCallee(); c.p.newHelper(h) && h != fn {
			// (a single-result helper that term inlining already resolves needs no expansion)
			opaque := false
			if t := x.Of(call, call); t.Op == "call" && (t.S == funcName(h) || t.S == "k."+h.Name()) {
				opaque = true
			}
			if len(ret.Results) > 1 || opaque {
				hx := c.p.tx(h)
				henv := c.callEnv(x, env, call)
				var out []vret
				for _, hr := range allReturns(h) {
					out = append(out, c.expandReturn(h, hx, henv, hr, depth+1)...)
				}
				return out
			}
		}
	}
	// out-parameter: `ok := H(.., &v, ..); return v, ok`
	if len(ret.Results) == 2 {
		if call, ok := ret.Results[1].(*ssa.Call); ok {
			if h := call.Call.StaticCallee(); c.p.newHelper(h) && h != fn {
				if ld, ok := ret.Results[0].(*ssa.UnOp); ok && ld.Op == token.MUL {
					if alloc, ok := ld.X.(*ssa.Alloc); ok {
						if out, ok := c.expandOutParam(fn, x, env, ret, call, h, alloc, depth); ok {
							return out
						}
					}
				}
			}
		}
	}
	return plain()
}

func (c *FC) expandOutParam(fn *ssa.Function, x *TX, env []*Term, ret *ssa.Return, call *ssa.Call, h *ssa.Function, alloc *ssa.Alloc, depth int) ([]vret, bool) {
	// which argument carries &v (possibly converted to an interface)
	k := -1
	for i, a := range call.Call.Args {
		if mi, ok := a.(*ssa.MakeInterface); ok {
			a = mi.X
		}
		if a == ssa.Value(alloc) {
			k = i
		}
	}
	if k < 0 || k >= len(h.Params) {
		return nil, false
	}
	// the local is written by nothing but this call
	var ws []writer
	x.collectWriters(alloc, nil, &ws)
	for _, w := range ws {
		if w.in == ssa.Instruction(call) {
			continue
		}
		// `*v = *v` (named results being re-assigned on return) writes nothing new
		if ld, ok := w.val.(*ssa.UnOp); ok && w.kind == "store" && ld.Op == token.MUL && ld.X == ssa.Value(alloc) && len(w.path) == 0 {
			continue
		}
		return nil, false
	}
	hx := c.p.tx(h)
	henv := c.callEnv(x, env, call)
	var hws []writer
	hx.collectWriters(h.Params[k], nil, &hws)
	hfi := c.p.info(h)
	elem := alloc.Type().(*types.Pointer).Elem()
	var out []vret
	for _, hr := range allReturns(h) {
		if len(hr.Results) != 1 {
			return nil, false
		}
		var reaching []writer
		for _, w := range hws {
			if hfi.canReach(w.in, hr) {
				reaching = append(reaching, w)
			}
		}
		var val *Term
		switch {
		case len(reaching) == 0:
			val = zeroTerm(elem)
		case len(reaching) == 1 && reaching[0].kind == "decode" && len(reaching[0].path) == 0 && !hfi.entryReachesAvoiding(hr, []ssa.Instruction{reaching[0].in}):
			val = &Term{Op: "decode", A: []*Term{c.frameTerm(hx, henv, reaching[0].val, reaching[0].in)}}
		default:
			val = unknown(fmt.Sprintf("%d writes through parameter %s may precede this exit of %s", len(reaching), h.Params[k].Name(), funcName(h)))
		}
		out = append(out, vret{
			vals: []string{c.sh(val.String()), c.sh(c.frameTerm(hx, henv, hr.Results[0], hr).String())},
			at:   hr, cfn: h, ifs: c.frameIfs(h, hx, henv),
		})
	}
	return out, true
}

// requireCutRets: each virtual return is cut from the entry of the function it lives in.
func (c *FC) requireCutRets(rule, what string, guard []Atom, rets []vret) bool {
	key := fmt.Sprintf("%s/%s/%s", rule, c.name, what)
	if len(rets) == 0 {
		c.r.fail(rule, key, c.pos(), "no target returns found for this guard (vacuous)")
		return false
	}
	for _, vr := range rets {
		res := cutQuery(vr.cfn, vr.ifs, guard, []ssa.Instruction{vr.at})
		if !res.Holds {
			return c.recordCut(rule, key, guard, res, len(rets))
		}
	}
	c.r.ok(rule, key, c.pos(), fmt.Sprintf("guard [%s] cuts all %d returns from the entry of their function", guardString(guard), len(rets)))
	return true
}
