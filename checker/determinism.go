package main

import (
	"fmt"
	"go/ast"
	"go/token"
	"go/types"
	"sort"
	"strings"

	"golang.org/x/tools/go/packages"
	"golang.org/x/tools/go/ssa"
)

// packages whose use makes module code depend on something other than chain state
var forbiddenPkgs = map[string]string{
	"time": "wall clock / timers", "math/rand": "randomness", "math/rand/v2": "randomness", "crypto/rand": "randomness",
	"os": "process environment", "os/exec": "process environment", "os/signal": "process environment", "runtime": "scheduler / process state",
	"runtime/debug": "process state", "syscall": "process state", "net": "network", "net/http": "network",
	"sync": "shared mutable state across goroutines", "sync/atomic": "shared mutable state across goroutines", "unsafe": "unsafe", "reflect": "reflection", "plugin": "plugins",
}

// Finding is one occurrence of a determinism hazard.
type Finding struct {
	Rule string
	Pos  string
	What string
}

// detScanPackage scans the syntax of one package (non-generated files) for the AST-level hazards.
func detScanPackage(p *Prog, pk *packages.Package, skipGenerated bool) []Finding {
	var out []Finding
	add := func(rule string, pos token.Pos, what string) {
		out = append(out, Finding{rule, p.pos(pos), what})
	}
	for i, f := range pk.Syntax {
		if skipGenerated && i < len(pk.CompiledGoFiles) && isGeneratedName(pk.CompiledGoFiles[i]) {
			continue
		}
		ast.Inspect(f, func(n ast.Node) bool {
			switch n := n.(type) {
			case *ast.RangeStmt:
				if T := pk.TypesInfo.TypeOf(n.X); T != nil {
					if _, ok := T.Underlying().(*types.Map); ok {
						add("D-maprange", n.Pos(), "range over a Go map (iteration order is random)")
					}
					if _, ok := T.Underlying().(*types.Chan); ok {
						add("D-concurrency", n.Pos(), "range over a channel")
					}
				}
			case *ast.GoStmt:
				add("D-concurrency", n.Pos(), "go statement")
			case *ast.SendStmt:
				add("D-concurrency", n.Pos(), "channel send")
			case *ast.SelectStmt:
				add("D-concurrency", n.Pos(), "select statement")
			case *ast.ChanType:
				add("D-concurrency", n.Pos(), "channel type")
			case *ast.UnaryExpr:
				if n.Op == token.ARROW {
					add("D-concurrency", n.Pos(), "channel receive")
				}
			case *ast.BasicLit:
				if n.Kind == token.STRING && strings.Contains(n.Value, "%p") {
					add("D-format", n.Pos(), "%p formats a memory address")
				}
			case *ast.BinaryExpr:
				if T := pk.TypesInfo.TypeOf(n); T != nil {
					if b, ok := T.Underlying().(*types.Basic); ok && b.Info()&types.IsFloat != 0 {
						add("D-float", n.Pos(), "floating-point arithmetic")
					}
				}
			}
			return true
		})
		// references to forbidden packages
		var ids []*ast.Ident
		ast.Inspect(f, func(n ast.Node) bool {
			if id, ok := n.(*ast.Ident); ok {
				ids = append(ids, id)
			}
			return true
		})
		for _, id := range ids {
			obj := pk.TypesInfo.Uses[id]
			if obj == nil || obj.Pkg() == nil {
				continue
			}
			if _, isPkgName := obj.(*types.PkgName); isPkgName {
				continue
			}
			if why, bad := forbiddenPkgs[obj.Pkg().Path()]; bad {
				add("D-forbidden-ref", id.Pos(), fmt.Sprintf("%s.%s (%s)", obj.Pkg().Path(), obj.Name(), why))
			}
		}
	}
	return out
}

// globalsOf lists package-level variables declared in the given files.
func globalsOf(pk *packages.Package, skipGenerated bool) map[*types.Var]token.Pos {
	out := map[*types.Var]token.Pos{}
	for i, f := range pk.Syntax {
		if skipGenerated && i < len(pk.CompiledGoFiles) && isGeneratedName(pk.CompiledGoFiles[i]) {
			continue
		}
		for _, d := range f.Decls {
			gd, ok := d.(*ast.GenDecl)
			if !ok || gd.Tok != token.VAR {
				continue
			}
			for _, spec := range gd.Specs {
				for _, name := range spec.(*ast.ValueSpec).Names {
					if v, ok := pk.TypesInfo.Defs[name].(*types.Var); ok && name.Name != "_" {
						out[v] = name.Pos()
					}
				}
			}
		}
	}
	return out
}

func isInitFunc(fn *ssa.Function) bool {
	for fn.Parent() != nil {
		fn = fn.Parent()
	}
	return fn.Name() == "init" || strings.HasPrefix(fn.Name(), "init#")
}

// read-only callees a reference-typed global may be passed to
var readOnlyCallees = map[string]bool{
	"bytes.Equal": true, "bytes.Compare": true, "len": true, "cap": true, "(sdk.AccAddress).String": true,
	"sdkerrors.Wrap": true, "sdkerrors.Wrapf": true, "(*sdkerrors.Error).Error": true, "(*sdkerrors.Error).Wrap": true, "(*sdkerrors.Error).Wrapf": true,
	"(prefix.Store).Get": true, "(prefix.Store).Has": true, "(prefix.Store).Set": true, "(prefix.Store).Delete": true,
	"ethcrypto.Keccak256": true, "encoding/hex.EncodeToString": true, "fmt.Sprintf": true, "fmt.Errorf": true,
	"(*codec.LegacyAmino).RegisterConcrete": false,
}

// detScanGlobals: SSA-level checks that package-level state is written only by initialisers.
func detScanGlobals(p *Prog, funcs []*ssa.Function, globals map[*types.Var]token.Pos, spkg *ssa.Package) []Finding {
	var out []Finding
	isOurGlobal := func(g *ssa.Global) bool {
		if g.Pkg == nil {
			return false
		}
		if g.Pkg != spkg {
			// a package-level variable of another module package written from here
			if !p.isModulePkgPath(g.Pkg.Pkg.Path()) {
				return false
			}
			if pos := g.Pos(); pos.IsValid() && p.genFiles[p.Fset.Position(pos).Filename] {
				return false
			}
			return true
		}
		v, ok := g.Object().(*types.Var)
		if !ok {
			return false
		}
		_, ok = globals[v]
		return ok
	}
	for _, fn := range funcs {
		if isInitFunc(fn) {
			continue
		}
		x := p.tx(fn)
		for _, b := range fn.Blocks {
			for _, in := range b.Instrs {
				switch in := in.(type) {
				case *ssa.Store:
					root := in.Addr
					viaLoad := false
					for {
						switch a := root.(type) {
						case *ssa.FieldAddr:
							root = a.X
							continue
						case *ssa.IndexAddr:
							root = a.X
							continue
						case *ssa.Slice:
							root = a.X
							continue
						case *ssa.UnOp:
							if a.Op == token.MUL {
								root = a.X
								viaLoad = true
								continue
							}
						}
						break
					}
					if g, ok := root.(*ssa.Global); ok && isOurGlobal(g) {
						what := "write to package-level variable " + g.Name()
						if viaLoad {
							what = "write into the memory of package-level variable " + g.Name()
						}
						out = append(out, Finding{"D-global-write", p.instrPos(in), what + " in " + funcName(fn)})
					}
				case *ssa.MapUpdate:
					if ld, ok := in.Map.(*ssa.UnOp); ok && ld.Op == token.MUL {
						if g, ok := ld.X.(*ssa.Global); ok && isOurGlobal(g) {
							out = append(out, Finding{"D-global-write", p.instrPos(in), "write to package-level map " + g.Name() + " in " + funcName(fn)})
						}
					}
				case *ssa.UnOp:
					// a load of a reference-typed global: every use must be read-only
					if in.Op != token.MUL {
						continue
					}
					g, ok := in.X.(*ssa.Global)
					if !ok || !isOurGlobal(g) {
						continue
					}
					switch in.Type().Underlying().(type) {
					case *types.Slice, *types.Map, *types.Pointer:
					default:
						continue
					}
					if why := globalUseWrites(x, in, 0); why != "" {
						out = append(out, Finding{"D-global-alias", p.instrPos(in), fmt.Sprintf("package-level variable %s may be modified through an alias in %s: %s", g.Name(), funcName(fn), why)})
					}
				}
			}
		}
	}
	return out
}

// globalUseWrites returns "" when every use of value v (loaded from a global of
// reference type) is read-only, else a description of the first possibly-writing use.
func globalUseWrites(x *TX, v ssa.Value, depth int) string {
	if depth > 6 {
		return "alias chain too deep"
	}
	refs := v.Referrers()
	if refs == nil {
		return ""
	}
	for _, r := range *refs {
		switch r := r.(type) {
		case *ssa.Store:
			if r.Val == v {
				return "stored into another location"
			}
		case *ssa.IndexAddr, *ssa.FieldAddr, *ssa.Slice:
			rv := r.(ssa.Value)
			// address/sub-slice: stores through it are caught by the Store rule; other uses recurse
			if why := globalUseWrites(x, rv, depth+1); why != "" {
				return why
			}
		case *ssa.MakeInterface, *ssa.ChangeInterface, *ssa.ChangeType, *ssa.Convert:
			if why := globalUseWrites(x, r.(ssa.Value), depth+1); why != "" {
				return why
			}
		case *ssa.Call:
			name := callNameOf(x, r)
			if b, ok := r.Call.Value.(*ssa.Builtin); ok {
				switch b.Name() {
				case "len", "cap":
					continue
				case "copy":
					if len(r.Call.Args) == 2 && r.Call.Args[0] == v {
						return "copy() into it"
					}
					continue
				case "append":
					if len(r.Call.Args) > 0 && r.Call.Args[0] == v {
						return "append() onto it (may write into its backing array)"
					}
					continue
				}
			}
			if r.Call.IsInvoke() {
				switch r.Call.Method.Name() {
				case "Get", "Has", "Set", "Delete", "Error", "String":
					continue
				}
				return "passed to interface method " + r.Call.Method.Name()
			}
			if ok := readOnlyCallees[name]; ok {
				continue
			}
			if callee := r.Call.StaticCallee(); callee != nil && callee.Blocks != nil && (x.p.inModuleCode(callee) || callee.Pkg == x.fn.Pkg) {
				// module callee: does it store through that parameter?
				for i, a := range r.Call.Args {
					if a == v && i < len(callee.Params) {
						if x.p.tx(callee).storedThrough(callee.Params[i], nil) {
							return "passed to " + name + " which writes through that parameter"
						}
					}
				}
				continue
			}
			return "passed to unclassified callee " + name
		case *ssa.Return, *ssa.BinOp, *ssa.UnOp, *ssa.Phi, *ssa.If, *ssa.Lookup, *ssa.Index, *ssa.Range, *ssa.Extract, *ssa.DebugRef:
			// reads / comparisons / returning the value
		case *ssa.MapUpdate:
			if r.Map == v {
				return "map update"
			}
		default:
			return fmt.Sprintf("used by %T", r)
		}
	}
	return ""
}

// detScanReceivers: stores through a Keeper / msgServer pointer outside the constructors.
func detScanReceivers(p *Prog, funcs []*ssa.Function, ctor map[string]bool) []Finding {
	var out []Finding
	for _, fn := range funcs {
		if ctor[funcName(fn)] {
			continue
		}
		for _, b := range fn.Blocks {
			for _, in := range b.Instrs {
				st, ok := in.(*ssa.Store)
				if !ok {
					continue
				}
				fa, ok := st.Addr.(*ssa.FieldAddr)
				if !ok {
					continue
				}
				pt, ok := fa.X.Type().Underlying().(*types.Pointer)
				if !ok || !isKeeperType(pt.Elem()) {
					continue
				}
				// a store into a local copy (value receiver spilled to an Alloc) does not persist
				if _, isAlloc := fa.X.(*ssa.Alloc); isAlloc {
					if a := fa.X.(*ssa.Alloc); !a.Heap {
						continue
					}
				}
				out = append(out, Finding{"D-keeper-field", p.instrPos(st), "store into keeper field " + fieldName(fa) + " in " + funcName(fn)})
			}
		}
	}
	return out
}

func init() { register("C18", "other", runC18) }

func runC18(p *Prog, r *Report, tier string) {
	r.Rule = "determinism scan over non-generated code of x/cctp/types, x/cctp/keeper, x/cctp: map range, forbidden packages, concurrency constructs, %p, floats, package-level writes and aliases, keeper field writes; list-order contracts; positive controls"
	r.Explanation = "Decided (expected count 0 each, each rule shown to fire on an overlaid fixture package on this very run): no range over a Go map; no reference to time, math/rand, crypto/rand, os, runtime, syscall, net, sync, sync/atomic, unsafe, reflect; no go statement, channel, select; no %p; no floating-point arithmetic; " +
		"every package-level variable is written only by package initialisers/init functions, and reference-typed ones (zeroByteArray, PaddedModuleAddress, ModuleAddress, the five role keys, error sentinels, codecs) are only passed to read-only uses elsewhere; no function stores into a Keeper/msgServer field outside the constructors, so no state is retained outside the store; " +
		"every list returned to callers (5 GetAll* getters, 5 paginated queries) is built by append in store-iterator order, never from a map. One allow-listed process-global read: sdk.GetConfig() bech32 prefix (sealed at start-up, identical on all validators). " +
		"Not decided: determinism of dependencies (cosmos-sdk, go-ethereum, store), of the Go runtime, and the actual equality of state hashes across replays."
	r.Assumptions = []string{"go/packages + go/types + go/ssa faithfully represent the module code", "dependencies are deterministic for the operations used", "the KV store iterates in key order"}
	r.Trusted = r.Assumptions

	externalAllowObligation(p, r, "D-external", "it may read the clock, randomness, process state or map order inside a dependency")
	initOnlyObligation(p, r, "D-external")
	formatObligation(p, r, "D-format")
	scope := []string{modulePkgs[0], modulePkgs[1], modulePkgs[2]}
	rules := []string{"D-maprange", "D-forbidden-ref", "D-concurrency", "D-format", "D-float", "D-global-write", "D-global-alias", "D-keeper-field"}
	counts := map[string]int{}
	nFiles, nGlobals := 0, 0
	for _, path := range scope {
		pk := p.Pkgs[path]
		for i := range pk.Syntax {
			if !isGeneratedName(pk.CompiledGoFiles[i]) {
				nFiles++
			}
		}
		var fs []Finding
		fs = append(fs, detScanPackage(p, pk, true)...)
		globals := globalsOf(pk, true)
		nGlobals += len(globals)
		var funcs []*ssa.Function
		for _, fn := range p.Funcs {
			top := fn
			for top.Parent() != nil {
				top = top.Parent()
			}
			if top.Pkg != nil && top.Pkg.Pkg.Path() == path {
				funcs = append(funcs, fn)
			}
		}
		fs = append(fs, detScanGlobals(p, funcs, globals, p.SPkgs[path])...)
		fs = append(fs, detScanReceivers(p, funcs, map[string]bool{"keeper.NewKeeper": true, "keeper.NewMsgServerImpl": true})...)
		for _, f := range fs {
			counts[f.Rule]++
			r.fail(f.Rule, f.Rule+"/"+shortPkg(path)+"/"+f.What, f.Pos, f.What)
		}
		for _, rule := range rules {
			n := 0
			for _, f := range fs {
				if f.Rule == rule {
					n++
				}
			}
			if n == 0 {
				r.ok(rule, rule+"/"+shortPkg(path)+"/none", "", "0 occurrences in "+shortPkg(path))
			}
		}
	}
	r.floor("scanned-files", nFiles, 50)
	r.floor("package-level-variables", nGlobals, 25)
	r.Extra["package_level_variables"] = nGlobals

	// keeper struct holds only immutable wiring (no maps/slices/caches)
	if obj := p.SPkgs[modulePkgs[1]].Pkg.Scope().Lookup("Keeper"); obj != nil {
		st := obj.Type().Underlying().(*types.Struct)
		for i := 0; i < st.NumFields(); i++ {
			f := st.Field(i)
			okT := false
			switch f.Type().Underlying().(type) {
			case *types.Interface:
				okT = true
			}
			r.check(okT, "D-keeper-field", "D-keeper-field/type/"+f.Name(), p.pos(f.Pos()), "keeper field "+f.Name()+" is an injected dependency (interface)",
				fmt.Sprintf("keeper field %s has type %s: state can be retained in the keeper outside the store", f.Name(), typeStr(f.Type())))
		}
	}
	// list order = store iterator order
	for _, row := range []struct{ getter, region string }{
		{"GetAllAttesters", "Attester/value/"}, {"GetAllPerMessageBurnLimits", "PerMessageBurnLimit/value/"}, {"GetAllTokenPairs", "TokenPair/value/"},
		{"GetAllUsedNonces", "UsedNonce/value/"}, {"GetRemoteTokenMessengers", "RemoteTokenMessenger/value/"}} {
		getAllContract(p, r, row.getter, row.region, "")
	}
	for _, q := range []string{"Attesters", "PerMessageBurnLimits", "RemoteTokenMessengers", "TokenPairs", "UsedNonces"} {
		pagedListContract(p, r, q)
	}
	// any local map must be used for membership only (never ranged, never returned)
	nMaps := 0
	for _, fn := range p.Funcs {
		top := fn
		for top.Parent() != nil {
			top = top.Parent()
		}
		if top.Pkg == nil || top.Pkg.Pkg.Path() == modulePkgs[3] {
			continue
		}
		for _, b := range fn.Blocks {
			for _, in := range b.Instrs {
				mm, ok := in.(*ssa.MakeMap)
				if !ok {
					continue
				}
				if mm.Pos().IsValid() && p.genFiles[p.Fset.Position(mm.Pos()).Filename] {
					continue // initialiser of a generated file
				}
				nMaps++
				bad := ""
				if refs := mm.Referrers(); refs != nil {
					for _, u := range *refs {
						switch u.(type) {
						case *ssa.Lookup, *ssa.MapUpdate, *ssa.DebugRef:
						default:
							bad = fmt.Sprintf("%T", u)
						}
					}
				}
				r.check(bad == "", "D-maprange", fmt.Sprintf("D-map-membership-only/%s/map#%d", funcName(fn), nMaps), p.instrPos(mm),
					"local map used only for lookup/insert", "local map in "+funcName(fn)+" is used by "+bad+": its order may leak into results")
			}
		}
	}

	// positive controls
	if p.Control == nil || p.ControlSSA == nil {
		r.fail("positive-control", "positive-control/fixture", "", "the positive-control fixture package was not loaded")
		return
	}
	var cf []Finding
	cf = append(cf, detScanPackage(p, p.Control, false)...)
	cf = append(cf, detScanGlobals(p, p.ControlFuncs, globalsOf(p.Control, false), p.ControlSSA)...)
	cf = append(cf, detScanReceivers(p, p.ControlFuncs, nil)...)
	got := map[string]int{}
	for _, f := range cf {
		got[f.Rule]++
	}
	var names []string
	for _, rule := range rules {
		names = append(names, rule)
	}
	sort.Strings(names)
	for _, rule := range names {
		r.check(got[rule] > 0, "positive-control", "positive-control/"+rule, "", fmt.Sprintf("rule fires %d times on the fixture", got[rule]),
			"rule "+rule+" does not fire on the positive-control fixture: it would pass vacuously on the real tree")
	}
}

// pagedListContract: a paginated list query appends each decoded entry, in
// the order the paginator visits the store prefix.
func pagedListContract(p *Prog, r *Report, q string) {
	fn := p.Func("keeper.Keeper." + q)
	c := p.fc(r, fn, "query."+q, nil)
	if c == nil {
		return
	}
	n := 0
	for _, sr := range c.successResults() {
		ret := sr.ret
		n++
		_, fields, ok := c.litFields(sr.vals[0])
		if !ok {
			r.undecided("D-list-order", "D-list-order/"+q+"/response", p.instrPos(ret), "response is not a literal")
			continue
		}
		okList := false
		for name, v := range fields {
			if name == "Pagination" {
				continue
			}
			// acc(nil;<closure>:append(fv:<var>,[decode(p1)]))
			if strings.HasPrefix(v, "acc(nil;") && strings.Contains(v, ":append(fv:") && strings.HasSuffix(v, ",[decode(p1)]))") {
				okList = true
			}
		}
		r.check(okList, "D-list-order", "D-list-order/"+q, p.instrPos(ret), "list built by append of each decoded value in paginator order",
			fmt.Sprintf("list query %s no longer builds its result by appending decoded entries in visit order: %v", q, fields))
	}
	r.check(n == 1, "D-list-order", "D-list-order/"+q+"/returns", c.pos(), "one success return", fmt.Sprintf("%d success returns", n))
}
