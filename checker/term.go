package main

import (
	"hash/fnv"
	"fmt"
	"go/constant"
	"go/token"
	"go/types"
	"sort"
	"strconv"
	"strings"

	"golang.org/x/tools/go/ssa"
)

// Term is a provenance term for an SSA value: where the value comes from,
// expressed over parameters, constants, globals, calls and memory idioms.
type Term struct {
	Op  string
	S   string
	A   []*Term
	F   []string
	T   types.Type
	str string
	// Fn: for "func" and "closure" terms, the function denoted (closure: A = bound values,
	// in the order of Fn.FreeVars)
	Fn *ssa.Function
}

// commOrder: canonical operand order of a commutative numeric operation (constants last).
func commOrder(l, r *Term) (*Term, *Term) {
	lc, rc := l.Op == "const", r.Op == "const"
	if (lc && !rc) || (lc == rc && r.String() < l.String()) {
		return r, l
	}
	return l, r
}

func mk(op, s string, a ...*Term) *Term { return &Term{Op: op, S: s, A: a} }

func unknown(why string) *Term { return &Term{Op: "unknown", S: why} }

func (t *Term) String() string {
	if t == nil {
		return "<nil>"
	}
	if t.str != "" {
		return t.str
	}
	var s string
	switch t.Op {
	case "const", "param", "k", "ctx", "global", "freevar", "func", "builtin", "none", "loop", "ind":
		s = t.S
	case "unknown":
		s = "?" + t.S
	case "field":
		base := t.A[0]
		if base.Op == "deref" {
			base = base.A[0]
		}
		s = base.String() + "." + t.S
	case "deref":
		s = "*" + t.A[0].String()
	case "addr":
		s = "&" + t.A[0].String()
	case "call":
		s = t.S + "(" + joinTerms(t.A) + ")"
	case "cat":
		s = "cat(" + joinTerms(t.A) + ")"
	case "dyncall":
		s = "dyn:" + t.A[0].String() + "(" + joinTerms(t.A[1:]) + ")"
	case "invoke":
		s = t.A[0].String() + "." + t.S + "(" + joinTerms(t.A[1:]) + ")"
	case "extract":
		s = t.A[0].String() + "#" + t.S
	case "bin":
		s = "(" + t.A[0].String() + " " + t.S + " " + t.A[1].String() + ")"
	case "un":
		s = t.S + t.A[0].String()
	case "conv":
		s = t.S + "(" + t.A[0].String() + ")"
	case "assert":
		s = t.A[0].String() + ".(" + t.S + ")"
	case "slice":
		lo, hi := "", ""
		if t.A[1].Op != "none" {
			lo = t.A[1].String()
		}
		if t.A[2].Op != "none" {
			hi = t.A[2].String()
		}
		s = t.A[0].String() + "[" + lo + ":" + hi + "]"
	case "index":
		s = t.A[0].String() + "[" + t.A[1].String() + "]"
	case "lookup":
		s = t.A[0].String() + "[" + t.A[1].String() + "]"
	case "buf":
		var parts []string
		for i, a := range t.A {
			parts = append(parts, t.F[i]+"="+a.String())
		}
		s = "buf(" + t.S + "){" + strings.Join(parts, ",") + "}"
	case "lit":
		var parts []string
		for i, a := range t.A {
			parts = append(parts, t.F[i]+":"+a.String())
		}
		s = t.S + "{" + strings.Join(parts, ",") + "}"
	case "upd":
		var parts []string
		for i, a := range t.A[1:] {
			parts = append(parts, t.F[i]+":"+a.String())
		}
		s = "upd(" + t.A[0].String() + "){" + strings.Join(parts, ",") + "}"
	case "acc":
		var parts []string
		for i, a := range t.A[1:] {
			parts = append(parts, t.F[i]+":"+a.String())
		}
		s = "acc(" + t.A[0].String() + ";" + strings.Join(parts, ";") + ")"
	case "list":
		s = "[" + joinTerms(t.A) + "]"
	case "phi":
		var parts []string
		for _, a := range t.A {
			parts = append(parts, a.String())
		}
		s = "phi(" + strings.Join(parts, "|") + ")"
	case "closure":
		s = "closure(" + t.S + ")"
	case "decode":
		s = "decode(" + t.A[0].String() + ")"
	case "map":
		s = t.S
	case "range":
		s = "range(" + t.A[0].String() + ")"
	case "next":
		s = "next(" + t.A[0].String() + ")"
	default:
		s = t.Op + ":" + t.S + "(" + joinTerms(t.A) + ")"
	}
	t.str = s
	return s
}

func joinTerms(ts []*Term) string {
	var parts []string
	for _, a := range ts {
		parts = append(parts, a.String())
	}
	return strings.Join(parts, ",")
}

func (t *Term) hasUnknown() bool {
	if t == nil {
		return false
	}
	if t.Op == "unknown" {
		return true
	}
	for _, a := range t.A {
		if a.hasUnknown() {
			return true
		}
	}
	return false
}

func (t *Term) hasFreeVar() bool {
	if t == nil {
		return false
	}
	if t.Op == "freevar" {
		return true
	}
	for _, a := range t.A {
		if a.hasFreeVar() {
			return true
		}
	}
	return false
}

func (t *Term) hasParam() bool {
	if t == nil {
		return false
	}
	if t.Op == "param" {
		return true
	}
	for _, a := range t.A {
		if a.hasParam() {
			return true
		}
	}
	return false
}

func (t *Term) unknownReason() string {
	if t == nil {
		return ""
	}
	if t.Op == "unknown" {
		return t.S
	}
	for _, a := range t.A {
		if r := a.unknownReason(); r != "" {
			return r
		}
	}
	return ""
}

// walk calls f on t and all sub-terms.
func (t *Term) walk(f func(*Term)) {
	if t == nil {
		return
	}
	f(t)
	for _, a := range t.A {
		a.walk(f)
	}
}

// ---------------------------------------------------------------------------

type memoKey struct {
	v  ssa.Value
	at ssa.Instruction
}

// TX extracts terms for values of one function.
type TX struct {
	p        *Prog
	fn       *ssa.Function
	fi       *FuncInfo
	memo     map[memoKey]*Term
	visiting map[ssa.Value]bool
	mapIDs   map[*ssa.MakeMap]int
}

func (p *Prog) tx(fn *ssa.Function) *TX {
	x := &TX{p: p, fn: fn, fi: p.info(fn), memo: map[memoKey]*Term{}, visiting: map[ssa.Value]bool{}, mapIDs: map[*ssa.MakeMap]int{}}
	n := 0
	for _, b := range fn.Blocks {
		for _, in := range b.Instrs {
			if mm, ok := in.(*ssa.MakeMap); ok {
				x.mapIDs[mm] = n
				n++
			}
		}
	}
	return x
}

func isNamed(T types.Type, pkgPath, name string) bool {
	if ptr, ok := T.(*types.Pointer); ok {
		T = ptr.Elem()
	}
	n, ok := T.(*types.Named)
	if !ok {
		return false
	}
	o := n.Obj()
	return o.Name() == name && o.Pkg() != nil && o.Pkg().Path() == pkgPath
}

func isKeeperType(T types.Type) bool {
	return isNamed(T, modPath+"/x/cctp/keeper", "Keeper") || isNamed(T, modPath+"/x/cctp/keeper", "msgServer") ||
		isNamed(T, controlPkgPath, "Keeper") // positive-control fixture
}

func isCtxType(T types.Type) bool {
	return isNamed(T, "context", "Context") || isNamed(T, "github.com/cosmos/cosmos-sdk/types", "Context")
}

func zeroTerm(T types.Type) *Term {
	switch u := T.Underlying().(type) {
	case *types.Basic:
		switch {
		case u.Info()&types.IsString != 0:
			return &Term{Op: "const", S: `""`, T: T}
		case u.Info()&types.IsBoolean != 0:
			return &Term{Op: "const", S: "false", T: T}
		case u.Info()&types.IsNumeric != 0:
			return &Term{Op: "const", S: "0", T: T}
		}
		return &Term{Op: "const", S: "nil", T: T}
	case *types.Struct:
		return &Term{Op: "lit", S: typeStr(T), T: T}
	default:
		return &Term{Op: "const", S: "nil", T: T}
	}
}

func isZeroTerm(t *Term) bool {
	if t.Op == "const" && (t.S == "0" || t.S == `""` || t.S == "false" || t.S == "nil") {
		return true
	}
	if t.Op == "lit" && len(t.A) == 0 {
		return true
	}
	return false
}

func constTerm(c *ssa.Const) *Term {
	T := c.Type()
	if c.Value == nil {
		return zeroTerm(T)
	}
	switch c.Value.Kind() {
	case constant.String:
		return &Term{Op: "const", S: strconv.Quote(constant.StringVal(c.Value)), T: T}
	case constant.Bool:
		return &Term{Op: "const", S: c.Value.String(), T: T}
	default:
		return &Term{Op: "const", S: c.Value.ExactString(), T: T}
	}
}

// Of returns the term of v as consumed by instruction at (nil: end of function).
func (x *TX) Of(v ssa.Value, at ssa.Instruction) *Term {
	if v == nil {
		return mk("none", "")
	}
	key := memoKey{v, at}
	if t, ok := x.memo[key]; ok {
		return t
	}
	if x.visiting[v] {
		return mk("loop", "@")
	}
	x.visiting[v] = true
	t := x.of(v, at)
	delete(x.visiting, v)
	if t.T == nil {
		t.T = v.Type()
	}
	// the memo is only valid for loop-free terms
	hasLoop := false
	t.walk(func(s *Term) {
		if s.Op == "loop" {
			hasLoop = true
		}
	})
	if !hasLoop {
		x.memo[key] = t
	}
	return t
}

func (x *TX) of(v ssa.Value, at ssa.Instruction) *Term {
	T := v.Type()
	if isKeeperType(T) {
		return mk("k", "k")
	}
	// Only the handler's own context is "ctx": the context parameter (or captured variable)
	// and its sdk.Unwrap/WrapSDKContext images. A context derived in any other way
	// (CacheContext, WithEventManager, WithValue, context.Background…) keeps its own term, so
	// effects performed on a branch or with a throw-away event manager do not look like
	// effects on the transaction's context.
	if isCtxType(T) {
		switch cv := v.(type) {
		case *ssa.Parameter, *ssa.FreeVar:
			return mk("ctx", "ctx")
		case *ssa.Call:
			if callee := cv.Call.StaticCallee(); callee != nil && !cv.Call.IsInvoke() {
				n := funcName(callee)
				if (n == "sdk.UnwrapSDKContext" || n == "sdk.WrapSDKContext") && len(cv.Call.Args) == 1 && x.Of(cv.Call.Args[0], cv).Op == "ctx" {
					return mk("ctx", "ctx")
				}
			}
		}
	}
	switch v := v.(type) {
	case *ssa.Const:
		return constTerm(v)
	case *ssa.Parameter:
		for i, p := range v.Parent().Params {
			if p == v {
				return &Term{Op: "param", S: fmt.Sprintf("p%d", i), T: T}
			}
		}
		return unknown("param")
	case *ssa.FreeVar:
		return &Term{Op: "freevar", S: "fv:" + v.Name(), T: T}
	case *ssa.Global:
		return mk("addr", "", x.globalTerm(v))
	case *ssa.Function:
		return &Term{Op: "func", S: "func:" + funcName(v), Fn: v}
	case *ssa.Builtin:
		return mk("builtin", v.Name())
	case *ssa.Alloc:
		return mk("addr", "", x.allocValue(v, at))
	case *ssa.UnOp:
		switch v.Op {
		case token.MUL:
			return x.load(v.X, v)
		case token.NOT:
			return mk("un", "!", x.Of(v.X, v))
		case token.SUB:
			return mk("un", "-", x.Of(v.X, v))
		case token.XOR:
			return mk("un", "^", x.Of(v.X, v))
		}
		return unknown("unop " + v.Op.String())
	case *ssa.BinOp:
		if v.Op == token.ADD {
			// Go lowers `for i := range xs` to t = phi(-1, t+1); i = t+1: the loop variable is t+1
			if phi, ok := v.X.(*ssa.Phi); ok {
				if k, ok := constInt(v.Y); ok && k == 1 {
					if start, step, ok := counterShape(phi); ok && start == -1 && step == 1 {
						return &Term{Op: "ind", S: fmt.Sprintf("#%c0", 'i'+rune(x.loopDepth(phi.Block()))), T: T}
					}
				}
			}
		}
		l, r := x.Of(v.X, v), x.Of(v.Y, v)
		if v.Op == token.EQL || v.Op == token.NEQ {
			// a comparison of two interface values also compares their dynamic types: it is not the
			// comparison of the wrapped values (terms see through MakeInterface)
			if _, isIface := v.X.Type().Underlying().(*types.Interface); isIface && !isNilConst(v.X) && !isNilConst(v.Y) {
				dyn := func(val ssa.Value, t *Term) *Term {
					ts := "?"
					if mi, ok := val.(*ssa.MakeInterface); ok {
						ts = typeStr(mi.X.Type())
					}
					return mk("call", "dyn:"+ts, t)
				}
				l, r = dyn(v.X, l), dyn(v.Y, r)
			}
		}
		if b, ok := v.Type().Underlying().(*types.Basic); ok && b.Info()&types.IsNumeric != 0 {
			switch v.Op {
			case token.ADD, token.MUL, token.AND, token.OR, token.XOR:
				// commutative on numbers: canonical operand order (constants last)
				l, r = commOrder(l, r)
				return &Term{Op: "bin", S: v.Op.String(), A: []*Term{l, r}, F: []string{"comm"}}
			}
		}
		return mk("bin", v.Op.String(), l, r)
	case *ssa.Call:
		return x.callTerm(v)
	case *ssa.Extract:
		tup := x.Of(v.Tuple, v)
		if tup.Op == "tuple" && v.Index < len(tup.A) {
			return tup.A[v.Index]
		}
		return mk("extract", strconv.Itoa(v.Index), tup)
	case *ssa.Phi:
		if name, ok := x.counterName(v); ok {
			return &Term{Op: "ind", S: name, T: T}
		}
		var alts []*Term
		seen := map[string]bool{}
		for _, e := range v.Edges {
			t := x.Of(e, v)
			if t.Op == "phi" {
				for _, a := range t.A {
					if !seen[a.String()] {
						seen[a.String()] = true
						alts = append(alts, a)
					}
				}
				continue
			}
			if !seen[t.String()] {
				seen[t.String()] = true
				alts = append(alts, t)
			}
		}
		sort.Slice(alts, func(i, j int) bool { return alts[i].String() < alts[j].String() })
		if len(alts) == 1 {
			hasLoop := false
			alts[0].walk(func(s *Term) {
				if s.Op == "loop" {
					hasLoop = true
				}
			})
			if !hasLoop {
				return alts[0]
			}
		}
		return &Term{Op: "phi", A: alts}
	case *ssa.Field:
		st := v.X.Type().Underlying().(*types.Struct)
		return x.fieldOf(x.Of(v.X, v), st.Field(v.Field))
	case *ssa.FieldAddr:
		return mk("addr", "", x.load(v, at))
	case *ssa.IndexAddr:
		return mk("addr", "", x.load(v, at))
	case *ssa.Index:
		return mk("index", "", x.Of(v.X, v), x.Of(v.Index, v))
	case *ssa.Lookup:
		return mk("lookup", "", x.Of(v.X, v), x.Of(v.Index, v))
	case *ssa.Slice:
		return x.sliceTerm(v, at)
	case *ssa.MakeSlice:
		return x.bufTerm(v, at)
	case *ssa.MakeMap:
		if x.p.newHelper(x.fn) {
			// a new helper's maps are distinct from its callers' (and, for a generic helper,
			// from those of its other instances)
			h := fnv.New32a()
			h.Write([]byte(funcName(x.fn)))
			return mk("map", fmt.Sprintf("map#%d^%08x", x.mapIDs[v], h.Sum32()))
		}
		return mk("map", fmt.Sprintf("map#%d", x.mapIDs[v]))
	case *ssa.MakeInterface:
		return x.Of(v.X, at)
	case *ssa.ChangeInterface:
		return x.Of(v.X, at)
	case *ssa.ChangeType:
		return x.Of(v.X, at)
	case *ssa.Convert:
		return x.convTerm(v, at)
	case *ssa.TypeAssert:
		return mk("assert", typeStr(v.AssertedType), x.Of(v.X, v))
	case *ssa.MakeClosure:
		t := &Term{Op: "closure", S: funcName(v.Fn.(*ssa.Function)), Fn: v.Fn.(*ssa.Function)}
		for _, b := range v.Bindings {
			t.A = append(t.A, x.Of(b, v))
		}
		return t
	case *ssa.Range:
		return mk("range", "", x.Of(v.X, v))
	case *ssa.Next:
		return mk("next", "", x.Of(v.Iter, v))
	}
	return unknown(fmt.Sprintf("%T", v))
}

func (x *TX) convTerm(v *ssa.Convert, at ssa.Instruction) *Term {
	inner := x.Of(v.X, at)
	ts := typeStr(v.Type())
	// []byte(string(X)) and string([]byte(X)) are identities on content
	if inner.Op == "conv" && inner.A[0].T != nil && types.Identical(inner.A[0].T.Underlying(), v.Type().Underlying()) {
		// (only through the other of the two: string([]rune(s)) rewrites invalid UTF-8)
		if mid := inner.S; (ts == "[]byte" && mid == "string") || (ts == "string" && mid == "[]byte") {
			return inner.A[0]
		}
	}
	return &Term{Op: "conv", S: ts, A: []*Term{inner}, T: v.Type()}
}

func (x *TX) globalTerm(g *ssa.Global) *Term {
	name := g.Name()
	if g.Pkg != nil {
		name = shortPkg(g.Pkg.Pkg.Path()) + "." + name
	}
	return &Term{Op: "global", S: name, T: g.Type().(*types.Pointer).Elem()}
}

func funcName(fn *ssa.Function) string {
	if fn == nil {
		return "<nil>"
	}
	if fn.Parent() != nil {
		return funcName(fn.Parent()) + "$" + strings.TrimPrefix(fn.Name(), fn.Parent().Name()+"$")
	}
	if recv := fn.Signature.Recv(); recv != nil {
		return "(" + typeStr(recv.Type()) + ")." + fn.Name()
	}
	if fn.Pkg != nil {
		return shortPkg(fn.Pkg.Pkg.Path()) + "." + fn.Name()
	}
	if fn.Object() != nil && fn.Object().Pkg() != nil {
		return shortPkg(fn.Object().Pkg().Path()) + "." + fn.Name()
	}
	return fn.Name()
}

func (x *TX) fieldOf(base *Term, f *types.Var) *Term {
	name := f.Name()
	b := base
	if b.Op == "addr" {
		b = b.A[0]
	}
	switch b.Op {
	case "lit":
		for i, fn := range b.F {
			if fn == name {
				return b.A[i]
			}
		}
		return zeroTerm(f.Type())
	case "upd":
		for i, fn := range b.F {
			if fn == name {
				return b.A[i+1]
			}
		}
		return x.fieldOf(b.A[0], f)
	}
	if isKeeperType(f.Type()) {
		return mk("k", "k")
	}
	return &Term{Op: "field", S: name, A: []*Term{b}, T: f.Type()}
}

// load returns the term of the value stored at addr when instruction at executes.
func (x *TX) load(addr ssa.Value, at ssa.Instruction) *Term {
	switch a := addr.(type) {
	case *ssa.Alloc:
		return x.allocValue(a, at)
	case *ssa.FieldAddr:
		st := a.X.Type().Underlying().(*types.Pointer).Elem().Underlying().(*types.Struct)
		f := st.Field(a.Field)
		if isKeeperType(f.Type()) {
			return mk("k", "k")
		}
		base := x.load(a.X, at)
		return x.fieldOf(base, f)
	case *ssa.IndexAddr:
		idx := x.Of(a.Index, at)
		if _, isPtr := a.X.Type().Underlying().(*types.Pointer); isPtr {
			arr := x.load(a.X, at)
			if arr.Op == "list" && idx.Op == "const" {
				if i, err := strconv.Atoi(idx.S); err == nil && i < len(arr.A) {
					return arr.A[i]
				}
			}
			return mk("index", "", arr, idx)
		}
		return mk("index", "", x.Of(a.X, at), idx)
	case *ssa.Global:
		if z := x.p.zeroBufGlobal(a); z != nil {
			return z
		}
		return x.globalTerm(a)
	case *ssa.FreeVar:
		if pt, ok := a.Type().(*types.Pointer); ok {
			if isKeeperType(pt.Elem()) {
				return mk("k", "k")
			}
			if isCtxType(pt.Elem()) {
				return mk("ctx", "ctx")
			}
		}
		return &Term{Op: "freevar", S: "fv:" + a.Name()}
	}
	// pointer obtained elsewhere (parameter, call result, phi …)
	if x.storedThrough(addr, at) {
		return unknown("memory behind " + addr.Name() + " is written in this function")
	}
	return mk("deref", "", x.Of(addr, at))
}

// storedThrough: does the function store through pointer ptr (or a field/element
// address derived from it) at an instruction that may execute before at?
func (x *TX) storedThrough(ptr ssa.Value, at ssa.Instruction) bool {
	refs := ptr.Referrers()
	if refs == nil {
		return false
	}
	var walk func(v ssa.Value) bool
	walk = func(v ssa.Value) bool {
		rs := v.Referrers()
		if rs == nil {
			return false
		}
		for _, r := range *rs {
			switch r := r.(type) {
			case *ssa.Store:
				if r.Addr == v && x.fi.canReach(r, at) {
					return true
				}
			case *ssa.FieldAddr:
				if walk(r) {
					return true
				}
			case *ssa.IndexAddr:
				if r.X == v && walk(r) {
					return true
				}
			}
		}
		return false
	}
	return walk(ptr)
}

// ---------------------------------------------------------------------------
// local variables (Alloc)

type writer struct {
	in   ssa.Instruction
	path []string // field path below the alloc; "[i]" for constant array elements
	val  ssa.Value
	kind string // "store", "decode", "opaque"
	why  string
}

var readOnlyExternal = map[string]bool{
	"MustMarshal": true, "Marshal": true, "MarshalJSON": true, "MustMarshalJSON": true,
	"EmitTypedEvent": true, "Mint": true, "Burn": true, "String": true,
	"Printf": true, "Sprintf": true, "Errorf": true, "Wrapf": true, "Wrap": true,
	"PrintProto": true, "GenerateOrBroadcastTxCLI": true, "ValidateBasic": true,
	"Info": true, "Error": true, "Debug": true,
	"SetBytes": true, "SetString": true, "SetUint64": true, "SetInt64": true,
}

func (x *TX) collectWriters(ptr ssa.Value, path []string, out *[]writer) {
	refs := ptr.Referrers()
	if refs == nil {
		return
	}
	for _, r := range *refs {
		switch r := r.(type) {
		case *ssa.Store:
			if r.Addr == ptr {
				*out = append(*out, writer{in: r, path: path, val: r.Val, kind: "store"})
			} else if r.Val == ptr {
				*out = append(*out, writer{in: r, path: path, kind: "opaque", why: "address stored"})
			}
		case *ssa.FieldAddr:
			st := r.X.Type().Underlying().(*types.Pointer).Elem().Underlying().(*types.Struct)
			x.collectWriters(r, append(append([]string(nil), path...), st.Field(r.Field).Name()), out)
		case *ssa.IndexAddr:
			if r.X != ptr {
				continue
			}
			seg := "[*]"
			if c, ok := r.Index.(*ssa.Const); ok && c.Value != nil {
				seg = "[" + c.Value.ExactString() + "]"
			}
			x.collectWriters(r, append(append([]string(nil), path...), seg), out)
		case *ssa.MakeInterface:
			x.collectIfaceUses(r, path, out)
		case *ssa.Call:
			x.classifyCallUse(r, ptr, path, out)
		case *ssa.MakeClosure:
			if len(path) == 0 {
				*out = append(*out, writer{in: r, path: path, val: ptr, kind: "closure"})
			} else {
				*out = append(*out, writer{in: r, path: path, kind: "opaque", why: "field address captured by closure"})
			}
		case *ssa.Phi:
			*out = append(*out, writer{in: r, path: path, kind: "opaque", why: "address merged by phi"})
		case *ssa.Defer, *ssa.Go:
			*out = append(*out, writer{in: r, path: path, kind: "opaque", why: "address passed to defer/go"})
		}
	}
}

func (x *TX) collectIfaceUses(mi *ssa.MakeInterface, path []string, out *[]writer) {
	refs := mi.Referrers()
	if refs == nil {
		return
	}
	for _, r := range *refs {
		switch r := r.(type) {
		case *ssa.Call:
			x.classifyCallUse(r, mi, path, out)
		case *ssa.Store:
			if r.Val == mi {
				// stored into a varargs array etc.: treat as read (formatting args)
			}
		case *ssa.Phi, *ssa.MakeClosure:
			*out = append(*out, writer{in: r, path: path, kind: "opaque", why: "interface value escapes"})
		}
	}
}

func (x *TX) classifyCallUse(c *ssa.Call, arg ssa.Value, path []string, out *[]writer) {
	common := c.Call
	name := ""
	if common.IsInvoke() {
		name = common.Method.Name()
	} else if callee := common.StaticCallee(); callee != nil {
		name = callee.Name()
		if x.p.inModuleCode(callee) || (callee.Pkg != nil && x.p.isModulePkgPath(callee.Pkg.Pkg.Path())) {
			// module callee: does it store through this parameter?
			argIdx := -1
			for i, a := range common.Args {
				if a == arg {
					argIdx = i
				}
			}
			if argIdx >= 0 && argIdx < len(callee.Params) && callee.Blocks != nil {
				cx := x.p.tx(callee)
				if !cx.storedThrough(callee.Params[argIdx], nil) {
					return // read-only in callee
				}
			}
			*out = append(*out, writer{in: c, path: path, kind: "opaque", why: "written by " + funcName(callee)})
			return
		}
	} else if b, ok := common.Value.(*ssa.Builtin); ok {
		name = b.Name()
		if name == "len" || name == "cap" || name == "append" || name == "print" || name == "println" {
			return
		}
	}
	if name == "MustUnmarshal" || name == "Unmarshal" || name == "MustUnmarshalLengthPrefixed" {
		// (bz, ptr): decode bz into *ptr
		var bz ssa.Value
		if len(common.Args) >= 2 {
			bz = common.Args[len(common.Args)-2]
		}
		*out = append(*out, writer{in: c, path: path, val: bz, kind: "decode"})
		return
	}
	if readOnlyExternal[name] {
		return
	}
	*out = append(*out, writer{in: c, path: path, kind: "opaque", why: "address passed to " + name})
}

func pathKey(p []string) string { return strings.Join(p, ".") }

// allocValue returns the term of the value held in local variable a when
// instruction at executes.
func (x *TX) allocValue(a *ssa.Alloc, at ssa.Instruction) *Term {
	elem := a.Type().(*types.Pointer).Elem()
	if isKeeperType(elem) {
		return mk("k", "k")
	}
	if arr, ok := elem.Underlying().(*types.Array); ok {
		if b, ok := arr.Elem().Underlying().(*types.Basic); ok && b.Kind() == types.Uint8 {
			return x.bufTerm(a, at)
		}
		return x.arrayList(a, arr, at)
	}
	var ws0, ws, closureWs []writer
	x.collectWriters(a, nil, &ws0)
	for _, w := range ws0 {
		if w.kind == "closure" {
			closureWs = append(closureWs, w)
		} else {
			ws = append(ws, w)
		}
	}
	if len(closureWs) > 0 {
		return x.closureVar(a, elem, ws, closureWs, at)
	}
	return x.allocValueFrom(a, elem, ws, at)
}

// closureVar: a local captured by reference by closures created in this
// function: its value is the initial value updated by the closures' stores.
func (x *TX) closureVar(a *ssa.Alloc, elem types.Type, ws, closureWs []writer, at ssa.Instruction) *Term {
	initT := x.allocValueFrom(a, elem, ws, at)
	t := &Term{Op: "acc", A: []*Term{initT}}
	for _, cw := range closureWs {
		mc := cw.in.(*ssa.MakeClosure)
		cfn := mc.Fn.(*ssa.Function)
		idx := -1
		for i, b := range mc.Bindings {
			if b == ssa.Value(a) {
				idx = i
			}
		}
		if idx < 0 || idx >= len(cfn.FreeVars) {
			return unknown("closure binding of " + a.Name())
		}
		fv := cfn.FreeVars[idx]
		cx := x.p.tx(cfn)
		refs := fv.Referrers()
		if refs != nil {
			for _, r := range *refs {
				switch r := r.(type) {
				case *ssa.Store:
					if r.Addr == ssa.Value(fv) {
						t.F = append(t.F, funcName(cfn))
						t.A = append(t.A, cx.Of(r.Val, r))
					}
				case *ssa.UnOp:
					// read
				default:
					return unknown(fmt.Sprintf("captured variable %s used by %T in closure", a.Name(), r))
				}
			}
		}
	}
	return t
}

func (x *TX) allocValueFrom(a *ssa.Alloc, elem types.Type, ws []writer, at ssa.Instruction) *Term {
	// keep writers that may execute before at
	var reaching []writer
	for _, w := range ws {
		if at == nil || x.fi.canReach(w.in, at) {
			reaching = append(reaching, w)
		}
	}
	// whole-value writers
	var whole []writer
	byPath := map[string][]writer{}
	var pathOrder []string
	for _, w := range reaching {
		if len(w.path) == 0 {
			whole = append(whole, w)
		} else {
			k := pathKey(w.path)
			if _, ok := byPath[k]; !ok {
				pathOrder = append(pathOrder, k)
			}
			byPath[k] = append(byPath[k], w)
		}
	}
	valOf := func(w writer) *Term {
		switch w.kind {
		case "store":
			return x.Of(w.val, w.in)
		case "decode":
			return &Term{Op: "decode", A: []*Term{x.Of(w.val, w.in)}, T: elem}
		}
		return unknown(w.why)
	}
	var base *Term
	switch {
	case len(whole) == 0:
		base = zeroTerm(elem)
	default:
		// the last dominating whole-store wins; others that may intervene make a phi
		var alts []*Term
		var ins []ssa.Instruction
		for _, w := range whole {
			ins = append(ins, w.in)
		}
		// drop whole-writers that are always overwritten by a later dominating one
		var live []writer
		for _, w := range whole {
			killed := false
			for _, w2 := range whole {
				if w2.in != w.in && at != nil && x.fi.dominates(w.in, w2.in) && x.fi.dominates(w2.in, at) && !x.fi.canReach(w2.in, w.in) {
					killed = true
				}
			}
			if !killed {
				live = append(live, w)
			}
		}
		for _, w := range live {
			alts = append(alts, valOf(w))
		}
		if at != nil && x.fi.entryReachesAvoiding(at, ins) {
			alts = append(alts, zeroTerm(elem))
		}
		base = phiOf(alts)
	}
	if len(byPath) == 0 {
		return base
	}
	st, isStruct := elem.Underlying().(*types.Struct)
	if !isStruct {
		return unknown("field writes into non-struct " + a.Name())
	}
	// assemble folds the field writers fws over base; a field whose writers can all be
	// bypassed on the way (from start, or from the entry) to at keeps its prior value too
	assemble := func(base *Term, start ssa.Instruction, fws []writer) *Term {
		if len(fws) == 0 {
			return base
		}
		by := map[string][]writer{}
		var order []string
		for _, w := range fws {
			k := pathKey(w.path)
			if _, ok := by[k]; !ok {
				order = append(order, k)
			}
			by[k] = append(by[k], w)
		}
		fields := map[string]*Term{}
		for _, k := range order {
			wl := by[k]
			var alts []*Term
			for _, w := range wl {
				alts = append(alts, valOf(w))
			}
			skip := false
			if at != nil {
				if start == nil {
					skip = x.fi.entryReachesAvoiding(at, insOf(wl))
				} else {
					skip = x.fi.instrReachesAvoiding(start, at, insOf(wl))
				}
			}
			if skip {
				// some path reaches at without this field being written: prior value
				alts = append(alts, x.fieldPath(base, st, wl[0].path))
			}
			fields[k] = phiOf(alts)
		}
		return x.buildLit(base, elem, st, fields)
	}
	var fieldWs []writer
	for _, w := range reaching {
		if len(w.path) != 0 {
			fieldWs = append(fieldWs, w)
		}
	}
	if len(whole) == 0 || at == nil {
		return assemble(base, nil, fieldWs)
	}
	// whole-value stores and field stores are ordered: a whole store discards the field
	// stores before it (`v := T{F: 1}; if c { v = *p }` is phi(*p | T{F:1}), not *p with F=1)
	wholeIns := insOf(whole)
	var alts []*Term
	for _, w := range whole {
		if !x.fi.instrReachesAvoiding(w.in, at, exceptIns(wholeIns, w.in)) {
			continue // always overwritten by another whole store before at
		}
		var after []writer
		for _, fw := range fieldWs {
			if x.fi.canReach(w.in, fw.in) && x.fi.instrReachesAvoiding(fw.in, at, wholeIns) {
				after = append(after, fw)
			}
		}
		alts = append(alts, assemble(valOf(w), w.in, after))
	}
	if x.fi.entryReachesAvoiding(at, wholeIns) {
		var pre []writer
		for _, fw := range fieldWs {
			if x.fi.entryReachesAvoiding(fw.in, wholeIns) && x.fi.instrReachesAvoiding(fw.in, at, wholeIns) {
				pre = append(pre, fw)
			}
		}
		alts = append(alts, assemble(zeroTerm(elem), nil, pre))
	}
	if len(alts) == 0 {
		return unknown("no store of " + a.Name() + " reaches its use")
	}
	return phiOf(alts)
}

func exceptIns(ins []ssa.Instruction, x ssa.Instruction) []ssa.Instruction {
	var out []ssa.Instruction
	for _, i := range ins {
		if i != x {
			out = append(out, i)
		}
	}
	return out
}

func insOf(ws []writer) []ssa.Instruction {
	var out []ssa.Instruction
	for _, w := range ws {
		out = append(out, w.in)
	}
	return out
}

func phiOf(alts []*Term) *Term {
	seen := map[string]bool{}
	var out []*Term
	for _, a := range alts {
		if a.Op == "phi" {
			for _, b := range a.A {
				if !seen[b.String()] {
					seen[b.String()] = true
					out = append(out, b)
				}
			}
			continue
		}
		if !seen[a.String()] {
			seen[a.String()] = true
			out = append(out, a)
		}
	}
	sort.Slice(out, func(i, j int) bool { return out[i].String() < out[j].String() })
	if len(out) == 1 {
		return out[0]
	}
	// L = phi(f(phi(@|nil)) | nil) and L = phi(f(@) | nil) are the same recurrence: an inner
	// "the cycle itself, or one of the cycle's other alternatives" is just the cycle
	altSet := map[string]bool{}
	for _, a := range out {
		altSet[a.String()] = true
	}
	changed := false
	for i, a := range out {
		if na := collapseCycleRefs(a, altSet); na != a {
			out[i], changed = na, true
		}
	}
	if changed {
		sort.Slice(out, func(i, j int) bool { return out[i].String() < out[j].String() })
		var ded []*Term
		for i, a := range out {
			if i == 0 || a.String() != out[i-1].String() {
				ded = append(ded, a)
			}
		}
		out = ded
		if len(out) == 1 {
			return out[0]
		}
	}
	return &Term{Op: "phi", A: out}
}

func collapseCycleRefs(t *Term, alts map[string]bool) *Term {
	if t == nil || len(t.A) == 0 {
		return t
	}
	if t.Op == "phi" {
		hasLoop, rest := false, true
		for _, a := range t.A {
			if a.Op == "loop" {
				hasLoop = true
			} else if !alts[a.String()] {
				rest = false
			}
		}
		if hasLoop && rest {
			return mk("loop", "@")
		}
	}
	var nt *Term
	for i, a := range t.A {
		if na := collapseCycleRefs(a, alts); na != a {
			if nt == nil {
				nt = &Term{Op: t.Op, S: t.S, F: t.F, T: t.T, A: append([]*Term(nil), t.A...)}
			}
			nt.A[i] = na
		}
	}
	if nt != nil {
		return nt
	}
	return t
}

func (x *TX) fieldPath(base *Term, st *types.Struct, path []string) *Term {
	cur := base
	curSt := st
	for _, seg := range path {
		if curSt == nil {
			return unknown("path")
		}
		var fv *types.Var
		for i := 0; i < curSt.NumFields(); i++ {
			if curSt.Field(i).Name() == seg {
				fv = curSt.Field(i)
			}
		}
		if fv == nil {
			return unknown("path " + seg)
		}
		cur = x.fieldOf(cur, fv)
		curSt, _ = fv.Type().Underlying().(*types.Struct)
	}
	return cur
}

// buildLit folds field writes over base into a literal term.
func (x *TX) buildLit(base *Term, T types.Type, st *types.Struct, fields map[string]*Term) *Term {
	// group by first segment
	first := map[string]map[string]*Term{}
	direct := map[string]*Term{}
	for k, v := range fields {
		segs := strings.SplitN(k, ".", 2)
		if len(segs) == 1 {
			direct[segs[0]] = v
		} else {
			if first[segs[0]] == nil {
				first[segs[0]] = map[string]*Term{}
			}
			first[segs[0]][segs[1]] = v
		}
	}
	baseIsZero := isZeroTerm(base)
	lit := &Term{Op: "lit", S: typeStr(T), T: T}
	upd := &Term{Op: "upd", A: []*Term{base}, T: T}
	for i := 0; i < st.NumFields(); i++ {
		f := st.Field(i)
		var val *Term
		if d, ok := direct[f.Name()]; ok {
			val = d
			if sub, ok := first[f.Name()]; ok {
				if fst, ok := f.Type().Underlying().(*types.Struct); ok {
					val = x.buildLit(val, f.Type(), fst, sub)
				}
			}
		} else if sub, ok := first[f.Name()]; ok {
			fst, ok := f.Type().Underlying().(*types.Struct)
			if !ok {
				val = unknown("nested write into non-struct field " + f.Name())
			} else {
				val = x.buildLit(x.fieldOf(base, f), f.Type(), fst, sub)
			}
		} else if base.Op == "lit" {
			// carry over fields of a literal base
			for j, fn := range base.F {
				if fn == f.Name() {
					val = base.A[j]
				}
			}
		}
		if val == nil {
			continue
		}
		if baseIsZero || base.Op == "lit" {
			if isZeroTerm(val) {
				continue
			}
			lit.F = append(lit.F, f.Name())
			lit.A = append(lit.A, val)
		} else {
			upd.F = append(upd.F, f.Name())
			upd.A = append(upd.A, val)
		}
	}
	if baseIsZero || base.Op == "lit" {
		return lit
	}
	return upd
}

// arrayList: a non-byte array alloc (varargs packing) as a list of elements.
func (x *TX) arrayList(a *ssa.Alloc, arr *types.Array, at ssa.Instruction) *Term {
	var ws []writer
	x.collectWriters(a, nil, &ws)
	elems := make([]*Term, arr.Len())
	for i := range elems {
		elems[i] = zeroTerm(arr.Elem())
	}
	// a table of structs written field by field ([]struct{…}{{a, b}, …})
	st, _ := arr.Elem().Underlying().(*types.Struct)
	fieldVals := make([]map[string]*Term, arr.Len())
	for _, w := range ws {
		if at != nil && !x.fi.canReach(w.in, at) {
			continue
		}
		if len(w.path) < 1 || w.kind != "store" || !strings.HasPrefix(w.path[0], "[") || w.path[0] == "[*]" {
			return unknown("array " + a.Name() + " written irregularly")
		}
		i, err := strconv.Atoi(strings.Trim(w.path[0], "[]"))
		if err != nil || i < 0 || i >= len(elems) {
			return unknown("array index")
		}
		switch {
		case len(w.path) == 1:
			elems[i] = x.Of(w.val, w.in)
		case len(w.path) == 2 && st != nil:
			if fieldVals[i] == nil {
				fieldVals[i] = map[string]*Term{}
			}
			if _, dup := fieldVals[i][w.path[1]]; dup {
				return unknown("array " + a.Name() + " element field written twice")
			}
			fieldVals[i][w.path[1]] = x.Of(w.val, w.in)
		default:
			return unknown("array " + a.Name() + " written irregularly")
		}
	}
	for i, fv := range fieldVals {
		if fv == nil {
			continue
		}
		lit := &Term{Op: "lit", S: typeStr(arr.Elem()), T: arr.Elem()}
		for j := 0; j < st.NumFields(); j++ {
			if v, ok := fv[st.Field(j).Name()]; ok && !isZeroTerm(v) {
				lit.F = append(lit.F, st.Field(j).Name())
				lit.A = append(lit.A, v)
			}
		}
		elems[i] = lit
	}
	return &Term{Op: "list", A: elems}
}

// instantiateCounter: t with loop counter ctr replaced by the constant k, and the
// selections this makes decidable carried out (element k of a literal list, a field of a
// literal).
func instantiateCounter(t *Term, ctr string, k int) *Term {
	if t == nil {
		return nil
	}
	if t.Op == "ind" && t.S == ctr {
		return &Term{Op: "const", S: strconv.Itoa(k), T: t.T}
	}
	if len(t.A) == 0 {
		return t
	}
	nt := &Term{Op: t.Op, S: t.S, F: t.F, T: t.T, Fn: t.Fn}
	for _, a := range t.A {
		nt.A = append(nt.A, instantiateCounter(a, ctr, k))
	}
	switch nt.Op {
	case "index":
		base := nt.A[0]
		if base.Op == "addr" || base.Op == "deref" {
			base = base.A[0]
		}
		if i, ok := isIntConst(nt.A[1]); ok && base.Op == "list" && int(i) < len(base.A) && i >= 0 {
			return base.A[i]
		}
	case "field":
		base := nt.A[0]
		for base.Op == "addr" || base.Op == "deref" {
			base = base.A[0]
		}
		if base.Op == "lit" {
			for i, fn := range base.F {
				if fn == nt.S {
					return base.A[i]
				}
			}
			if nt.T != nil {
				return zeroTerm(nt.T)
			}
		}
	case "phi":
		return phiOf(nt.A)
	}
	return nt
}

// tableCounter: does t select from a literal list by a loop counter (`LIST[#i0]…`)?
// Returns the counter and the list's length.
func tableCounter(t *Term) (string, int, bool) {
	if t == nil {
		return "", 0, false
	}
	if t.Op == "index" && len(t.A) == 2 && t.A[1].Op == "ind" {
		base := t.A[0]
		for base.Op == "addr" || base.Op == "deref" {
			base = base.A[0]
		}
		if base.Op == "list" && len(base.A) > 0 {
			return t.A[1].S, len(base.A), true
		}
	}
	for _, a := range t.A {
		if c, n, ok := tableCounter(a); ok {
			return c, n, true
		}
	}
	return "", 0, false
}

// ---------------------------------------------------------------------------
// byte buffers

type bufWriter struct {
	in    ssa.Instruction
	rng   string
	lo    int // -1 when not constant
	val   *Term
	valFn func() *Term
}

// views maps every slice value derived from a buffer object to its (lo, hi)
// offset relative to the object ("" when unknown/non-constant).
type view struct {
	v      ssa.Value
	lo     *Term // nil = 0
	hi     *Term // nil = end
	loC    int
	loIsC  bool
	hiC    int
	hiIsC  bool
	hiOpen bool
}

func constInt(v ssa.Value) (int, bool) {
	if c, ok := v.(*ssa.Const); ok && c.Value != nil && c.Value.Kind() == constant.Int {
		if i, ok := constant.Int64Val(c.Value); ok {
			return int(i), true
		}
	}
	return 0, false
}

func (x *TX) bufSize(obj ssa.Value, at ssa.Instruction) (string, int, bool) {
	switch o := obj.(type) {
	case *ssa.Alloc:
		arr := o.Type().(*types.Pointer).Elem().Underlying().(*types.Array)
		return strconv.Itoa(int(arr.Len())), int(arr.Len()), true
	case *ssa.MakeSlice:
		if n, ok := constInt(o.Len); ok {
			return strconv.Itoa(n), n, true
		}
		return x.Of(o.Len, o).String(), 0, false
	}
	return "?", 0, false
}

func (x *TX) collectViews(obj ssa.Value) []view {
	var out []view
	var walk func(v ssa.Value, cur view)
	walk = func(v ssa.Value, cur view) {
		cur.v = v
		out = append(out, cur)
		refs := v.Referrers()
		if refs == nil {
			return
		}
		for _, r := range *refs {
			sl, ok := r.(*ssa.Slice)
			if !ok || sl.X != v {
				continue
			}
			nv := view{loIsC: cur.loIsC, loC: cur.loC, lo: cur.lo, hiOpen: true}
			if sl.Low != nil {
				if c, ok := constInt(sl.Low); ok && cur.loIsC {
					nv.loC = cur.loC + c
				} else {
					nv.loIsC = false
					lt := x.Of(sl.Low, sl)
					if cur.loIsC && cur.loC == 0 {
						nv.lo = lt
					} else if cur.loIsC {
						nv.lo = mk("bin", "+", &Term{Op: "const", S: strconv.Itoa(cur.loC)}, lt)
					} else {
						nv.lo = mk("bin", "+", cur.lo, lt)
					}
				}
			}
			if sl.High != nil {
				nv.hiOpen = false
				if c, ok := constInt(sl.High); ok && cur.loIsC {
					nv.hiIsC = true
					nv.hiC = cur.loC + c
				} else {
					ht := x.Of(sl.High, sl)
					if cur.loIsC && cur.loC == 0 {
						nv.hi = ht
					} else if cur.loIsC {
						nv.hi = mk("bin", "+", &Term{Op: "const", S: strconv.Itoa(cur.loC)}, ht)
					} else {
						nv.hi = mk("bin", "+", cur.lo, ht)
					}
				}
			} else if !cur.hiOpen {
				nv.hiOpen, nv.hiIsC, nv.hiC, nv.hi = false, cur.hiIsC, cur.hiC, cur.hi
			}
			walk(sl, nv)
		}
	}
	walk(obj, view{loIsC: true, loC: 0, hiOpen: true})
	return out
}

func (vw view) rangeStr(size int, sizeKnown bool, width int) string {
	lo := ""
	if vw.loIsC {
		lo = strconv.Itoa(vw.loC)
	} else {
		lo = vw.lo.String()
	}
	hi := ""
	switch {
	case width > 0 && vw.loIsC:
		hi = strconv.Itoa(vw.loC + width)
	case vw.hiOpen:
		hi = ""
	case vw.hiIsC:
		hi = strconv.Itoa(vw.hiC)
	default:
		hi = vw.hi.String()
	}
	if sizeKnown && hi == strconv.Itoa(size) {
		hi = ""
	}
	return "[" + lo + ":" + hi + "]"
}

// bufTerm returns the content term of a locally created byte buffer.
func (x *TX) bufTerm(obj ssa.Value, at ssa.Instruction) *Term {
	sizeStr, size, sizeKnown := x.bufSize(obj, at)
	views := x.collectViews(obj)
	type bw struct {
		in  ssa.Instruction
		rng string
		key int
		val *Term
	}
	var ws []bw
	late := false
	for _, vw := range views {
		refs := vw.v.Referrers()
		if refs == nil {
			continue
		}
		for _, r := range *refs {
			switch r := r.(type) {
			case *ssa.Call:
				common := r.Call
				if b, ok := common.Value.(*ssa.Builtin); ok && b.Name() == "copy" && len(common.Args) == 2 && common.Args[0] == vw.v {
					ws = append(ws, bw{r, vw.rangeStr(size, sizeKnown, 0), vw.loC, nil})
					continue
				}
				if callee := common.StaticCallee(); callee != nil {
					fname := funcName(callee)
					switch fname {
					case "(encoding/binary.bigEndian).PutUint32", "(encoding/binary.bigEndian).PutUint64", "(encoding/binary.bigEndian).PutUint16",
						"(encoding/binary.littleEndian).PutUint32", "(encoding/binary.littleEndian).PutUint64", "(encoding/binary.littleEndian).PutUint16":
						if len(common.Args) == 3 && common.Args[1] == vw.v {
							w := 4
							if strings.HasSuffix(fname, "64") {
								w = 8
							} else if strings.HasSuffix(fname, "16") {
								w = 2
							}
							ws = append(ws, bw{r, vw.rangeStr(size, sizeKnown, w), vw.loC, nil})
						}
						continue
					case "(*math/big.Int).FillBytes":
						if len(common.Args) == 2 && common.Args[1] == vw.v {
							ws = append(ws, bw{r, vw.rangeStr(size, sizeKnown, 0), vw.loC, nil})
						}
						continue
					}
				}
			case *ssa.IndexAddr:
				if r.X != vw.v {
					continue
				}
				irefs := r.Referrers()
				if irefs == nil {
					continue
				}
				for _, ir := range *irefs {
					if st, ok := ir.(*ssa.Store); ok && st.Addr == r {
						idx := "*"
						key := 1 << 20
						if c, ok := constInt(r.Index); ok && vw.loIsC {
							idx = strconv.Itoa(vw.loC + c)
							key = vw.loC + c
						}
						ws = append(ws, bw{st, "[" + idx + "]", key, nil})
					}
				}
			}
		}
	}
	// every other use of a view that may write into the buffer (append INTO a view, the view
	// handed to a function that is not known to only read it, an alias kept in a variable or
	// struct field and written through later, …) makes the contents unknown
	var opaque []ssa.Instruction
	var opaqueWhy []string
	for _, vw := range views {
		for _, u := range x.opaqueViewUses(vw.v, true, map[ssa.Value]bool{}) {
			opaque = append(opaque, u.in)
			opaqueWhy = append(opaqueWhy, u.why)
		}
	}
	t := &Term{Op: "buf", S: sizeStr}
	sort.SliceStable(ws, func(i, j int) bool { return ws[i].key < ws[j].key })
	for _, w := range ws {
		if at != nil && !x.fi.canReach(w.in, at) {
			if x.fi.canReach(at, w.in) {
				late = true
			}
			continue
		}
		var val *Term
		switch in := w.in.(type) {
		case *ssa.Call:
			common := in.Call
			if b, ok := common.Value.(*ssa.Builtin); ok && b.Name() == "copy" {
				val = x.Of(common.Args[1], in)
			} else {
				fname := funcName(common.StaticCallee())
				switch {
				case strings.Contains(fname, "bigEndian).PutUint"):
					val = mk("call", "be"+fname[strings.Index(fname, "PutUint")+7:], x.Of(common.Args[2], in))
				case strings.Contains(fname, "littleEndian).PutUint"):
					val = mk("call", "le"+fname[strings.Index(fname, "PutUint")+7:], x.Of(common.Args[2], in))
				default: // FillBytes
					val = mk("call", "ubig", x.Of(common.Args[0], in))
				}
			}
		case *ssa.Store:
			val = x.Of(in.Val, in)
		}
		rng := w.rng
		if at != nil && !x.fi.dominates(w.in, at) {
			rng = "?" + rng
		}
		t.F = append(t.F, rng)
		t.A = append(t.A, val)
	}
	for i, in := range opaque {
		switch {
		case at == nil || x.fi.canReach(in, at) || in == at:
			t.F = append(t.F, "?opaque")
			t.A = append(t.A, unknown("buffer may be written by "+opaqueWhy[i]))
		case x.fi.canReach(at, in):
			late = true
		}
	}
	if late {
		t.F = append(t.F, "!late")
		t.A = append(t.A, unknown("buffer written after this use"))
	}
	if c := partitionedBuf(t, size, sizeKnown); c != nil {
		return c
	}
	return t
}

// partitionedBuf: a fixed-size buffer every byte of which is written exactly once by
// writers of intrinsic width (fixed-width integers, single constant bytes), in windows
// that tile [0,N): the same bytes as the concatenation of the values (cat normal form).
// nil when the buffer is not of that shape (copies of variable-length data, gaps, overlaps,
// conditional or late writers).
func partitionedBuf(t *Term, size int, sizeKnown bool) *Term {
	if !sizeKnown && len(t.A) >= 2 {
		// make([]byte, C+len(x)) filled by fixed-width values over [0:C) and copy(buf[C:], x):
		// the tail window is exactly len(x) long, so the copy is the whole of x
		last := len(t.A) - 1
		var c int
		tail := t.A[last]
		if n, _ := fmt.Sscanf(t.F[last], "[%d:]", &c); n == 1 && t.F[last] == fmt.Sprintf("[%d:]", c) &&
			(t.S == fmt.Sprintf("(len(%s) + %d)", tail, c) || t.S == fmt.Sprintf("(%d + len(%s))", c, tail)) {
			head := &Term{Op: "buf", S: strconv.Itoa(c), A: t.A[:last], F: t.F[:last]}
			if hc := partitionedBuf(head, c, true); hc != nil {
				return catOf(hc, tail)
			}
			if len(head.A) == 1 {
				if segs := catSegs(&Term{Op: "buf", S: head.S, A: head.A, F: []string{"[0:]"}}); len(segs) == 1 && head.F[0] == fmt.Sprintf("[0:%d]", c) && segs[0] != nil && segs[0].Op == "call" {
					return catOf(segs[0], tail)
				}
			}
		}
		return nil
	}
	if !sizeKnown || size <= 0 || len(t.A) == 0 {
		return nil
	}
	width := map[string]int{"be16": 2, "be32": 4, "be64": 8, "le16": 2, "le32": 4, "le64": 8}
	pos := 0
	var segs []*Term
	var lit []byte
	flush := func() {
		if len(lit) > 0 {
			segs = append(segs, &Term{Op: "conv", S: "[]byte", A: []*Term{{Op: "const", S: strconv.Quote(string(lit))}}})
			lit = nil
		}
	}
	for i, rng := range t.F {
		var lo, hi int
		v := t.A[i]
		switch {
		case rng == fmt.Sprintf("[%d]", pos):
			b, ok := isIntConst(v)
			if !ok || b < 0 || b > 255 {
				return nil
			}
			lit = append(lit, byte(b))
			pos++
			continue
		case func() bool { n, _ := fmt.Sscanf(rng, "[%d:%d]", &lo, &hi); return n == 2 && rng == fmt.Sprintf("[%d:%d]", lo, hi) }():
		case func() bool { n, _ := fmt.Sscanf(rng, "[%d:]", &lo); hi = size; return n == 1 && rng == fmt.Sprintf("[%d:]", lo) }():
		case rng == "[:]" || rng == "[0:]":
			lo, hi = 0, size
		default:
			return nil
		}
		if lo != pos || v.Op != "call" || width[v.S] == 0 || hi-lo != width[v.S] {
			return nil
		}
		flush()
		segs = append(segs, v)
		pos = hi
	}
	flush()
	if pos != size || len(segs) < 2 {
		return nil
	}
	return &Term{Op: "cat", A: segs}
}

type opaqueUse struct {
	in  ssa.Instruction
	why string
}

// readOnlyByteFuncs: external functions that only read the byte slices they are given.
var readOnlyByteFuncs = map[string]bool{
	"bytes.Equal": true, "bytes.Compare": true, "bytes.HasPrefix": true, "bytes.HasSuffix": true, "bytes.TrimLeft": true, "bytes.Contains": true,
	"ethcrypto.Keccak256": true, "ethcrypto.Keccak256Hash": true, "ethcrypto.Ecrecover": true, "ethcommon.BytesToAddress": true, "ethcommon.BytesToHash": true, "ethcommon.Bytes2Hex": true,
	"encoding/hex.EncodeToString": true, "(*math/big.Int).SetBytes": true, "bech32.ConvertAndEncode": true, "sdk.Bech32ifyAddressBytes": true, "sdk.MustBech32ifyAddressBytes": true,
	"(encoding/binary.bigEndian).Uint16": true, "(encoding/binary.bigEndian).Uint32": true, "(encoding/binary.bigEndian).Uint64": true,
	"(encoding/binary.littleEndian).Uint16": true, "(encoding/binary.littleEndian).Uint32": true, "(encoding/binary.littleEndian).Uint64": true,
	"(prefix.Store).Get": true, "(prefix.Store).Has": true, "(prefix.Store).Set": true, "(prefix.Store).Delete": true, "(prefix.Store).Iterator": true,
	"types.KeyPrefix": true, "fmt.Sprintf": true, "fmt.Errorf": true, "sdkerrors.Wrapf": true, "sdkerrors.Wrap": true,
	"(sdk.AccAddress).String": true, "(sdk.AccAddress).Bytes": true,
}

// opaqueViewUses lists the uses of a slice value v aliasing a local byte buffer that may
// write into it in a way bufTerm does not model. direct: v is one of the buffer's own
// views (its recognised writers — copy into it, PutUintNN, FillBytes, v[i] = b — are
// modelled and not reported); for an alias reached through a variable, a struct field or a
// phi, every write is reported.
func (x *TX) opaqueViewUses(v ssa.Value, direct bool, seen map[ssa.Value]bool) []opaqueUse {
	if seen[v] {
		return nil
	}
	seen[v] = true
	var out []opaqueUse
	refs := v.Referrers()
	if refs == nil {
		return nil
	}
	add := func(in ssa.Instruction, why string) { out = append(out, opaqueUse{in, why}) }
	for _, r := range *refs {
		switch r := r.(type) {
		case *ssa.Slice:
			if !direct {
				out = append(out, x.opaqueViewUses(r, false, seen)...)
			} // direct sub-views are views of their own
		case *ssa.IndexAddr:
			if direct {
				continue
			}
			if irefs := r.Referrers(); irefs != nil {
				for _, ir := range *irefs {
					if st, ok := ir.(*ssa.Store); ok && st.Addr == ssa.Value(r) {
						add(st, "a store through an alias of it")
					}
				}
			}
		case *ssa.Call, *ssa.Defer, *ssa.Go:
			common := r.(ssa.CallInstruction).Common()
			argIdx := -1
			for i, a := range common.Args {
				if a == v {
					argIdx = i
				}
			}
			if b, ok := common.Value.(*ssa.Builtin); ok {
				switch b.Name() {
				case "len", "cap", "print", "println":
				case "copy":
					if argIdx == 0 && !direct {
						add(r, "copy into an alias of it")
					}
				case "append":
					if argIdx == 0 && !(direct && x.appendCannotWriteInside(v)) {
						add(r, "append into it (writes the backing array when capacity allows)")
					}
				default:
					add(r, "builtin "+b.Name())
				}
				continue
			}
			if common.IsInvoke() {
				continue // store / keeper / codec interfaces: take keys and values by value semantics
			}
			callee := common.StaticCallee()
			if callee == nil {
				add(r, "a dynamic call")
				continue
			}
			name := funcName(callee)
			if strings.Contains(name, "Endian).PutUint") || name == "(*math/big.Int).FillBytes" {
				if !direct {
					add(r, name+" into an alias of it")
				}
				continue
			}
			if strings.Contains(name, "Endian).AppendUint") {
				// AppendUintNN(b, v) is append(b, …)
				if argIdx == 1 && !(direct && x.appendCannotWriteInside(v)) {
					add(r, name+" into it (writes the backing array when capacity allows)")
				}
				continue
			}
			if readOnlyByteFuncs[name] {
				continue
			}
			if x.p.inModuleCode(callee) || (callee.Pkg != nil && x.p.isModulePkgPath(callee.Pkg.Pkg.Path())) {
				if argIdx >= 0 && argIdx < len(callee.Params) && callee.Blocks != nil {
					prm := callee.Params[argIdx]
					end := direct && x.appendCannotWriteInside(v)
					if end {
						endReachingParams[prm] = true
					}
					n := len(x.p.tx(callee).opaqueViewUses(prm, end, map[ssa.Value]bool{}))
					delete(endReachingParams, prm)
					if n == 0 {
						continue // the callee only reads it (or appends past the end of an end-reaching view)
					}
				}
				add(r, "module function "+name)
				continue
			}
			add(r, "external function "+name)
		case *ssa.Store:
			if r.Val != v {
				continue
			}
			// kept in a local variable or a field of a local struct: follow what is read back
			switch a := r.Addr.(type) {
			case *ssa.Alloc:
				out = append(out, x.aliasLoads(a, nil, seen)...)
			case *ssa.FieldAddr:
				if base, ok := a.X.(*ssa.Alloc); ok {
					out = append(out, x.aliasLoads(base, a, seen)...)
				} else {
					add(r, "an alias stored outside the function's locals")
				}
			case *ssa.IndexAddr:
				// element of a local array (varargs): read by the callee
			case *ssa.Global:
				// a package-level buffer: who may write it is decided per global
				// (zeroBufGlobal, C18's global-alias rule)
			default:
				add(r, "an alias stored outside the function's locals")
			}
		case *ssa.Phi, *ssa.ChangeType:
			out = append(out, x.opaqueViewUses(r.(ssa.Value), false, seen)...)
		case *ssa.MakeClosure:
			add(r, "a closure capturing it")
		case *ssa.MakeInterface, *ssa.Convert, *ssa.Return, *ssa.DebugRef, *ssa.BinOp, *ssa.UnOp, *ssa.Lookup, *ssa.Range, *ssa.If, *ssa.MapUpdate, *ssa.Send:
		default:
			add(r, fmt.Sprintf("%T", r))
		}
	}
	return out
}

var endReachingParams = map[*ssa.Parameter]bool{}

// appendCannotWriteInside: v is the buffer itself or a view of it that reaches the end of the
// buffer's length: append(v, …) writes (at most) into spare capacity beyond that length, which
// is not part of the buffer's value, or allocates. (A shortened view x[:k] is the other case:
// append overwrites x[k:].)
func (x *TX) appendCannotWriteInside(v ssa.Value) bool {
	for {
		switch o := v.(type) {
		case *ssa.Parameter:
			return endReachingParams[o] // (set while a caller's end-reaching view is followed into this callee)
		case *ssa.MakeSlice:
			return true
		case *ssa.Slice:
			if o.Max != nil {
				return false
			}
			if a, ok := o.X.(*ssa.Alloc); ok {
				arr, isArr := a.Type().(*types.Pointer).Elem().Underlying().(*types.Array)
				if !isArr {
					return false
				}
				// make([]T, n, c) with constant sizes is `new [c]T` sliced once [:n]: that slice is the buffer
				only := true
				for _, r := range *a.Referrers() {
					if r != ssa.Instruction(o) {
						if _, dbg := r.(*ssa.DebugRef); !dbg {
							only = false
						}
					}
				}
				if only && o.Low == nil {
					return true
				}
				if o.High == nil {
					return true // arr[lo:] ends where the array ends
				}
				h, ok := constInt(o.High)
				return ok && int64(h) == arr.Len()
			}
			if o.High != nil {
				return false
			}
			v = o.X
		default:
			return false
		}
	}
}

// aliasLoads: the slice was stored into local a (field f, or the variable itself): the
// values read back from there are aliases.
func (x *TX) aliasLoads(a *ssa.Alloc, f *ssa.FieldAddr, seen map[ssa.Value]bool) []opaqueUse {
	var out []opaqueUse
	refs := a.Referrers()
	if refs == nil {
		return nil
	}
	for _, r := range *refs {
		switch r := r.(type) {
		case *ssa.UnOp:
			if f == nil && r.Op == token.MUL && isByteSlice(r.Type()) {
				out = append(out, x.opaqueViewUses(r, false, seen)...)
			}
		case *ssa.FieldAddr:
			if f == nil || r.Field != f.Field {
				continue
			}
			if frefs := r.Referrers(); frefs != nil {
				for _, fr := range *frefs {
					if ld, ok := fr.(*ssa.UnOp); ok && ld.Op == token.MUL {
						out = append(out, x.opaqueViewUses(ld, false, seen)...)
					}
				}
			}
		}
	}
	return out
}

func (x *TX) sliceTerm(v *ssa.Slice, at ssa.Instruction) *Term {
	// find the root object of a slice chain
	root := ssa.Value(v)
	for {
		s, ok := root.(*ssa.Slice)
		if !ok {
			break
		}
		root = s.X
	}
	isBuf := false
	switch r := root.(type) {
	case *ssa.Global:
		// g[:] of a never-written package-level [N]byte
		if n := x.p.zeroArrayGlobal(r); n > 0 && v.X == root && v.Low == nil && v.High == nil {
			return &Term{Op: "buf", S: strconv.Itoa(n)}
		}
	case *ssa.MakeSlice:
		if b, ok := r.Type().Underlying().(*types.Slice).Elem().Underlying().(*types.Basic); ok && b.Kind() == types.Uint8 {
			isBuf = true
		}
	case *ssa.Alloc:
		if arr, ok := r.Type().(*types.Pointer).Elem().Underlying().(*types.Array); ok {
			if b, ok := arr.Elem().Underlying().(*types.Basic); ok && b.Kind() == types.Uint8 {
				isBuf = true
			} else if v.X == root {
				// varargs: slice t[:] of a local array
				return x.arrayList(r, arr, at)
			}
		}
	}
	if isBuf {
		whole := x.bufTerm(root, at)
		_, size, sizeKnown := x.bufSize(root, at)
		for _, vw := range x.collectViews(root) {
			if vw.v != ssa.Value(v) {
				continue
			}
			full := vw.loIsC && vw.loC == 0 && (vw.hiOpen || (vw.hiIsC && sizeKnown && vw.hiC == size))
			if full {
				return whole
			}
			lo, hi := mk("none", ""), mk("none", "")
			if vw.loIsC {
				if vw.loC != 0 {
					lo = &Term{Op: "const", S: strconv.Itoa(vw.loC)}
				}
			} else {
				lo = vw.lo
			}
			if !vw.hiOpen {
				if vw.hiIsC {
					if !(sizeKnown && vw.hiC == size) {
						hi = &Term{Op: "const", S: strconv.Itoa(vw.hiC)}
					}
				} else {
					hi = vw.hi
				}
			}
			return mk("slice", "", whole, lo, hi)
		}
	}
	base := x.Of(v.X, at)
	lo, hi := mk("none", ""), mk("none", "")
	if v.Low != nil {
		lo = x.Of(v.Low, v)
		if lo.Op == "const" && lo.S == "0" {
			lo = mk("none", "")
		}
	}
	if v.High != nil {
		hi = x.Of(v.High, v)
	}
	// x[a:b][c:d] is x[a+c:a+d] (constant bounds): "peel the next field off the rest" decoders
	if base.Op == "slice" && len(base.A) == 3 {
		a, aok := int64(0), base.A[1].Op == "none"
		if !aok {
			a, aok = isIntConst(base.A[1])
		}
		c0, cok := int64(0), lo.Op == "none"
		if !cok {
			c0, cok = isIntConst(lo)
		}
		if aok && cok {
			nlo := mk("none", "")
			if a+c0 != 0 {
				nlo = &Term{Op: "const", S: strconv.FormatInt(a+c0, 10)}
			}
			switch {
			case hi.Op == "none":
				return mk("slice", "", base.A[0], nlo, base.A[2])
			default:
				if d, dok := isIntConst(hi); dok {
					return mk("slice", "", base.A[0], nlo, &Term{Op: "const", S: strconv.FormatInt(a+d, 10)})
				}
			}
		}
	}
	return mk("slice", "", base, lo, hi)
}

// ---------------------------------------------------------------------------
// calls

var commutative = map[string]bool{"bytes.Equal": true, "strings.EqualFold": true}

func (x *TX) callTerm(c *ssa.Call) *Term {
	common := c.Call
	if common.IsInvoke() {
		recv := x.Of(common.Value, c)
		args := []*Term{recv}
		for _, a := range common.Args {
			args = append(args, x.Of(a, c))
		}
		args = x.spliceVarargs(common.Signature(), args, 1)
		return &Term{Op: "invoke", S: common.Method.Name(), A: args}
	}
	switch cv := common.Value.(type) {
	case *ssa.Builtin:
		var args []*Term
		for _, a := range common.Args {
			args = append(args, x.Of(a, c))
		}
		if cv.Name() == "len" && len(args) == 1 && args[0].Op == "list" {
			return &Term{Op: "const", S: strconv.Itoa(len(args[0].A))}
		}
		if cv.Name() == "append" && len(args) == 2 && isByteSlice(common.Args[0].Type()) && isByteSliceOrString(common.Args[1].Type()) {
			return catOf(args[0], args[1])
		}
		return &Term{Op: "call", S: cv.Name(), A: args}
	}
	callee := common.StaticCallee()
	if callee == nil {
		var args []*Term
		for _, a := range common.Args {
			args = append(args, x.Of(a, c))
		}
		return &Term{Op: "dyncall", A: append([]*Term{x.Of(common.Value, c)}, args...)}
	}
	name := funcName(callee)
	var args []*Term
	for _, a := range common.Args {
		args = append(args, x.Of(a, c))
	}
	off := 0
	if callee.Signature.Recv() != nil {
		off = 1
	}
	args = x.spliceVarargs(callee.Signature, args, off)
	// rewrites
	for _, e := range [][2]string{{"(encoding/binary.bigEndian).AppendUint", "be"}, {"(encoding/binary.littleEndian).AppendUint", "le"}} {
		if strings.HasPrefix(name, e[0]) && len(args) == 3 {
			// AppendUintNN(b, v) is b followed by the NN-bit encoding of v
			return catOf(args[1], mk("call", e[1]+strings.TrimPrefix(name, e[0]), args[2]))
		}
	}
	switch name {
	case "sdkmath.NewIntFromBigInt":
		if len(args) == 1 && args[0].Op == "call" && args[0].S == "(sdkmath.Int).BigInt" {
			return args[0].A[0] // Int -> *big.Int -> Int round trip is the identity on the value
		}
	case "types.KeyPrefix":
		if len(args) == 1 {
			in := args[0]
			if in.Op == "conv" && in.S == "string" {
				return in.A[0]
			}
			return &Term{Op: "conv", S: "[]byte", A: []*Term{in}}
		}
	}
	var plain *Term
	// `k.Name` is the spelling of the reference tree's keeper / message-server methods; a new
	// method keeps its full name (a method added to msgServer must not pass for the promoted
	// Keeper method of the same name)
	if callee.Signature.Recv() != nil && len(args) > 0 && args[0].Op == "k" && knownFuncs[name] {
		plain = &Term{Op: "call", S: "k." + callee.Name(), A: args[1:]}
	} else {
		pa := args
		if commutative[name] && len(args) == 2 && args[1].String() < args[0].String() {
			pa = []*Term{args[1], args[0]}
		}
		plain = &Term{Op: "call", S: name, A: pa}
	}
	if t := x.inlineHelper(c, callee, args, plain); t != nil {
		return t
	}
	return plain
}

func isByteSlice(T types.Type) bool {
	sl, ok := T.Underlying().(*types.Slice)
	if !ok {
		return false
	}
	b, ok := sl.Elem().Underlying().(*types.Basic)
	return ok && b.Kind() == types.Uint8
}

func isByteSliceOrString(T types.Type) bool {
	if b, ok := T.Underlying().(*types.Basic); ok && b.Info()&types.IsString != 0 {
		return true
	}
	return isByteSlice(T)
}

// catOf: the byte string a followed by b, in a normal form that does not depend on how
// the concatenation was written (nested append, AppendUintNN on a pre-sized buffer,
// temporaries filled by PutUintNN): cat(seg, seg, …).
func catOf(a, b *Term) *Term {
	segs := append(catSegs(a), catSegs(b)...)
	switch len(segs) {
	case 0:
		return &Term{Op: "buf", S: "0"}
	case 1:
		return segs[0]
	}
	return &Term{Op: "cat", A: segs}
}

func catSegs(t *Term) []*Term {
	switch {
	case t.Op == "cat":
		return t.A
	case t.Op == "buf" && len(t.A) == 0 && t.S == "0":
		return nil // make([]byte, 0, n)
	case t.Op == "const" && t.S == "nil":
		return nil
	case t.Op == "slice" && len(t.A) == 3 && t.A[1].Op == "none" && t.A[2].Op == "const" && t.A[2].S == "0":
		return nil // x[:0]: make([]byte, 0, n) written with an explicit capacity
	case t.Op == "const" && strings.HasPrefix(t.S, `"`):
		// append(b, "lit"...): the bytes of the literal
		return []*Term{{Op: "conv", S: "[]byte", A: []*Term{t}}}
	case t.Op == "slice" && len(t.A) == 3 && t.A[1].Op == "none" && t.A[0].Op == "buf":
		// make([]byte, n, cap) filled over [0:n): the view is what counts
		if hi, ok := isIntConst(t.A[2]); ok && hi > 0 {
			view := &Term{Op: "buf", S: strconv.FormatInt(hi, 10), A: t.A[0].A, F: t.A[0].F}
			if c := partitionedBuf(view, int(hi), true); c != nil {
				return catSegs(c)
			}
			if len(view.A) == 1 && view.F[0] == fmt.Sprintf("[0:%d]", hi) {
				return catSegs(&Term{Op: "buf", S: view.S, A: view.A, F: []string{"[0:]"}})
			}
		}
	case t.Op == "buf" && len(t.A) > 0 && t.S == strconv.Itoa(len(t.A)):
		// every byte a constant: the same bytes as a string literal converted to []byte
		bs := make([]byte, len(t.A))
		for i, a := range t.A {
			v, isC := isIntConst(a)
			if !isC || t.F[i] != "["+strconv.Itoa(i)+"]" || v < 0 || v > 255 {
				return []*Term{t}
			}
			bs[i] = byte(v)
		}
		return []*Term{{Op: "conv", S: "[]byte", A: []*Term{{Op: "const", S: strconv.Quote(string(bs))}}}}
	case t.Op == "buf" && len(t.A) == 1 && t.F[0] == "[0:]" && t.A[0].Op == "call":
		// a temporary of exactly the value's width, filled by one PutUintNN
		w := map[string]string{"be16": "2", "be32": "4", "be64": "8", "le16": "2", "le32": "4", "le64": "8"}
		if t.S == w[t.A[0].S] {
			return []*Term{t.A[0]}
		}
	}
	return []*Term{t}
}

func (x *TX) spliceVarargs(sig *types.Signature, args []*Term, off int) []*Term {
	if sig == nil || !sig.Variadic() || len(args) == 0 {
		return args
	}
	last := args[len(args)-1]
	switch {
	case last.Op == "list":
		return append(args[:len(args)-1:len(args)-1], last.A...)
	case last.Op == "const" && last.S == "nil":
		return args[:len(args)-1]
	}
	return args
}

var zeroBufCache = map[*ssa.Global]*Term{}
var zeroBufDone = map[*ssa.Global]bool{}

// zeroBufGlobal: a package-level []byte of module code that is initialised once
// (in the package initialiser) to an all-zero buffer and is never written or
// aliased for writing anywhere in module code is the constant buf(N){}. Returns
// nil for every other global.
func (p *Prog) zeroBufGlobal(g *ssa.Global) *Term {
	if zeroBufDone[g] {
		return zeroBufCache[g]
	}
	zeroBufDone[g] = true
	if g.Pkg == nil || !p.isModulePkgPath(g.Pkg.Pkg.Path()) {
		return nil
	}
	sl, ok := g.Type().(*types.Pointer).Elem().Underlying().(*types.Slice)
	if !ok {
		return nil
	}
	if b, ok := sl.Elem().Underlying().(*types.Basic); !ok || b.Kind() != types.Uint8 {
		return nil
	}
	name := shortPkg(g.Pkg.Pkg.Path()) + "." + g.Name()
	init := p.globalInit(name)
	if init == nil || init.Op != "buf" {
		return nil
	}
	for _, a := range init.A {
		if a.String() != "0" {
			return nil
		}
	}
	// never written outside the package initialiser, never aliased for writing
	for _, fn := range p.Funcs {
		synthInit := fn.Synthetic != "" && fn.Name() == "init"
		x := p.tx(fn)
		for _, b := range fn.Blocks {
			for _, in := range b.Instrs {
				switch in := in.(type) {
				case *ssa.Store:
					if in.Addr == ssa.Value(g) && !synthInit {
						return nil
					}
				case *ssa.UnOp:
					if in.Op == token.MUL && in.X == ssa.Value(g) {
						if why := globalUseWrites(x, in, 0); why != "" {
							return nil
						}
						if refs := in.Referrers(); refs != nil {
							for _, r := range *refs {
								if ia, ok := r.(*ssa.IndexAddr); ok {
									if irefs := ia.Referrers(); irefs != nil {
										for _, ir := range *irefs {
											if st, ok := ir.(*ssa.Store); ok && st.Addr == ssa.Value(ia) {
												return nil
											}
										}
									}
								}
								if sl, ok := r.(*ssa.Slice); ok {
									if srefs := sl.Referrers(); srefs != nil {
										for _, sr := range *srefs {
											if c, ok := sr.(*ssa.Call); ok {
												if bi, ok := c.Call.Value.(*ssa.Builtin); ok && bi.Name() == "copy" && c.Call.Args[0] == ssa.Value(sl) {
													return nil
												}
											}
										}
									}
								}
							}
						}
					}
				}
			}
		}
	}
	z := &Term{Op: "buf", S: init.S, T: g.Type().(*types.Pointer).Elem()}
	zeroBufCache[g] = z
	return z
}

var zeroArrCache = map[*ssa.Global]int{}

// zeroArrayGlobal: a package-level [N]byte of module code that no instruction ever writes
// (no store to it or into it, every slice of it used read-only): its slices are N zero
// bytes for the life of the process. Returns N, or 0.
func (p *Prog) zeroArrayGlobal(g *ssa.Global) int {
	if n, ok := zeroArrCache[g]; ok {
		return n
	}
	zeroArrCache[g] = 0
	if g.Pkg == nil || !p.isModulePkgPath(g.Pkg.Pkg.Path()) {
		return 0
	}
	arr, ok := g.Type().(*types.Pointer).Elem().Underlying().(*types.Array)
	if !ok {
		return 0
	}
	if b, ok := arr.Elem().Underlying().(*types.Basic); !ok || b.Kind() != types.Uint8 {
		return 0
	}
	for _, fn := range p.Funcs {
		x := p.tx(fn)
		for _, b := range fn.Blocks {
			for _, in := range b.Instrs {
				for _, op := range in.Operands(nil) {
					if *op != ssa.Value(g) {
						continue
					}
					switch in := in.(type) {
					case *ssa.UnOp: // a copy of the array value
					case *ssa.Slice:
						if why := globalUseWrites(x, in, 0); why != "" {
							return 0
						}
					case *ssa.IndexAddr:
						if refs := in.Referrers(); refs != nil {
							for _, r := range *refs {
								if _, isLoad := r.(*ssa.UnOp); !isLoad {
									return 0
								}
							}
						}
					default:
						return 0 // stored to, address passed on, …
					}
				}
			}
		}
	}
	zeroArrCache[g] = int(arr.Len())
	return zeroArrCache[g]
}

// counterShape: phi(c, phi+k) — a counting loop variable: start c, step k.
func counterShape(phi *ssa.Phi) (start, step int, ok bool) {
	if len(phi.Edges) < 2 {
		return 0, 0, false
	}
	// one constant start; every other edge (the loop end and each `continue`) brings phi+k
	haveStart, haveStep := false, false
	for _, e := range phi.Edges {
		if k, isC := constInt(e); isC {
			if haveStart && k != start {
				return 0, 0, false
			}
			start, haveStart = k, true
			continue
		}
		bo, isB := e.(*ssa.BinOp)
		if !isB || bo.Op != token.ADD || bo.X != ssa.Value(phi) {
			return 0, 0, false
		}
		k, isC := constInt(bo.Y)
		if !isC || (haveStep && k != step) {
			return 0, 0, false
		}
		step, haveStep = k, true
	}
	return start, step, haveStart && haveStep
}

// counterName: canonical name of a C-style loop counter `for i := c; …; i++`:
// "#i<c>" at loop depth 0, "#j<c>" at depth 1, … (so range loops and index loops print alike,
// nested loops stay distinguishable, and the start value stays visible).
func (x *TX) counterName(phi *ssa.Phi) (string, bool) {
	start, step, ok := counterShape(phi)
	if !ok || step != 1 || start < 0 {
		return "", false
	}
	if x.counterEscapes(phi) {
		// used after (outside) its own loop: there it is a frozen final value, not the running
		// index — and would print like the live counter of a later loop at the same depth
		return fmt.Sprintf("#stale@%s", x.p.instrPos(phi)), true
	}
	return fmt.Sprintf("#%c%d", 'i'+rune(x.loopDepth(phi.Block())), start), true
}

// counterEscapes: is the counter (or a value computed from it) used outside the natural loop
// of its header?
func (x *TX) counterEscapes(phi *ssa.Phi) bool {
	h := phi.Block()
	nl := naturalLoop(h)
	inLoop := func(b *ssa.BasicBlock) bool { return nl[b] }
	seen := map[ssa.Value]bool{}
	var walk func(v ssa.Value, depth int) bool
	walk = func(v ssa.Value, depth int) bool {
		if seen[v] || depth > 3 {
			return false
		}
		seen[v] = true
		refs := v.Referrers()
		if refs == nil {
			return false
		}
		for _, r := range *refs {
			if r.Parent() != x.fn {
				continue
			}
			if !inLoop(r.Block()) {
				if _, isDbg := r.(*ssa.DebugRef); isDbg {
					continue
				}
				return true
			}
			switch rv := r.(type) {
			case *ssa.BinOp:
				if walk(rv, depth+1) {
					return true
				}
			case *ssa.Convert:
				if walk(rv, depth+1) {
					return true
				}
			case *ssa.Phi:
				if rv != phi && walk(rv, depth+1) {
					return true
				}
			}
		}
		return false
	}
	return walk(phi, 0)
}

// loopDepth: number of loop headers (other than b itself) whose natural loop contains b.
func (x *TX) loopDepth(b *ssa.BasicBlock) int {
	d := 0
	for _, h := range x.fn.Blocks {
		if h == b || !h.Dominates(b) || !x.fi.reach[b.Index][h.Index] {
			continue
		}
		for _, pr := range h.Preds {
			if h.Dominates(pr) {
				d++
				break
			}
		}
	}
	return d
}

var inlining = map[*ssa.Function]bool{}

// inlineHelper: a module function that is not part of the reference tree's API
// (knownFuncs) and has no mutating effect is replaced by the term(s) it returns, with
// the arguments substituted:
//   - straight-line body with a single return: always;
//   - branching body: when exactly one return can report success (the others return a
//     provably non-nil error, or the function panics instead), the value components are
//     those of the success return, provided every use of them in the caller lies behind
//     the caller's own `err == nil` test of this very call (valueUsesBehindErrCheck);
//     the error component stays the opaque `call#k`, so the caller's test of it is
//     still visible as a branch atom (and is resolved by splicing, see splice.go).
// Returns nil when it does not apply.
func (x *TX) inlineHelper(c *ssa.Call, callee *ssa.Function, args []*Term, plain *Term) *Term {
	if !x.p.newHelper(callee) || inlining[callee] {
		return nil
	}
	var rets []*ssa.Return
	branching := false
	for _, b := range callee.Blocks {
		for _, in := range b.Instrs {
			switch in := in.(type) {
			case *ssa.Return:
				rets = append(rets, in)
			case *ssa.If, *ssa.Panic:
				branching = true
			case *ssa.Store, *ssa.MapUpdate, *ssa.Go, *ssa.Defer, *ssa.Send:
				if st, ok := in.(*ssa.Store); ok {
					// stores into locals (struct literals, buffers) are fine
					if _, local := rootAlloc(st.Addr); local {
						continue
					}
				}
				return nil
			}
		}
	}
	if len(rets) == 0 {
		return nil
	}
	inlining[callee] = true
	defer delete(inlining, callee)
	// (the helper's effects do not bear on the identity of the values it returns; they are
	// accounted for by the effect closure / own() of the caller)
	cx := x.p.tx(callee)
	var ret *ssa.Return
	var moreSucc []*ssa.Return // further success exits: the value is a phi over all of them
	keepErr := false
	if !branching && len(callee.Blocks) == 1 {
		ret = rets[0]
	} else {
		var succ []*ssa.Return
		nErr := 0
		commaOK := false
		if sig := callee.Signature.Results(); sig.Len() >= 2 {
			if b, ok := sig.At(sig.Len() - 1).Type().Underlying().(*types.Basic); ok && b.Kind() == types.Bool {
				commaOK = true
			}
		}
		for _, r := range rets {
			if commaOK {
				// (value…, ok bool): the exit with ok == true is the success exit
				k, isConst := r.Results[len(r.Results)-1].(*ssa.Const)
				if !isConst || k.Value == nil {
					return nil
				}
				if constant.BoolVal(k.Value) {
					succ = append(succ, r)
				} else {
					nErr++
				}
				continue
			}
			switch x.p.exitKind(cx, r) {
			case "error":
				nErr++
			case "ok", "plain":
				succ = append(succ, r)
			default:
				return nil
			}
		}
		if len(succ) == 0 {
			return nil
		}
		ret = succ[0]
		moreSucc = succ[1:]
		if nErr > 0 {
			if c == nil || len(ret.Results) < 2 || !valueUsesBehindErrCheck(c, commaOK) {
				return nil
			}
			keepErr = true
		}
	}
	var results []*Term
	for i, rv := range ret.Results {
		if keepErr && i == len(ret.Results)-1 {
			results = append(results, mk("extract", strconv.Itoa(i), plain))
			continue
		}
		t := substTerm(cx.Of(rv, ret), args)
		if len(moreSucc) > 0 {
			alts := []*Term{t}
			for _, r2 := range moreSucc {
				alts = append(alts, substTerm(cx.Of(r2.Results[i], r2), args))
			}
			t = phiOf(alts)
		}
		if t.hasUnknown() {
			return nil
		}
		results = append(results, t)
	}
	switch len(results) {
	case 0:
		return nil
	case 1:
		return results[0]
	}
	return &Term{Op: "tuple", A: results}
}

// newHelper: a module function with a body that the reference tree does not have.
func (p *Prog) newHelper(callee *ssa.Function) bool {
	if callee == nil || callee.Blocks == nil || !p.inModuleCode(callee) || callee.Parent() != nil {
		return false
	}
	if knownFuncs[funcName(callee)] || strings.HasPrefix(funcName(callee), "zzverifcontrol") {
		return false
	}
	return true
}

// valueUsesBehindErrCheck: call c returns (values…, error); its error component is
// tested against nil by a branch, and every use of the value components is dominated by
// the successor on which the error is nil.
func valueUsesBehindErrCheck(c *ssa.Call, commaOK bool) bool {
	tup, ok := c.Type().(*types.Tuple)
	if !ok || tup.Len() < 2 {
		return false
	}
	var errX *ssa.Extract
	var vals []*ssa.Extract
	if refs := c.Referrers(); refs != nil {
		for _, r := range *refs {
			ex, ok := r.(*ssa.Extract)
			if !ok {
				if _, dbg := r.(*ssa.DebugRef); dbg {
					continue
				}
				return false
			}
			if ex.Index == tup.Len()-1 {
				errX = ex
			} else {
				vals = append(vals, ex)
			}
		}
	}
	if errX == nil {
		return false
	}
	var okSucc *ssa.BasicBlock
	if refs := errX.Referrers(); refs != nil && commaOK {
		// `if ok {…}` / `if !ok {…}`
		var visit func(v ssa.Value, pos bool, refs []ssa.Instruction)
		visit = func(v ssa.Value, pos bool, refs []ssa.Instruction) {
			for _, r := range refs {
				switch r := r.(type) {
				case *ssa.If:
					slot := 1
					if pos {
						slot = 0
					}
					if s := r.Block().Succs[slot]; len(s.Preds) == 1 {
						okSucc = s
					}
				case *ssa.UnOp:
					if r.Op == token.NOT && r.Referrers() != nil {
						visit(r, !pos, *r.Referrers())
					}
				}
			}
		}
		visit(errX, true, *refs)
	} else if refs != nil {
		for _, r := range *refs {
			bo, ok := r.(*ssa.BinOp)
			if !ok || (bo.Op != token.NEQ && bo.Op != token.EQL) {
				continue
			}
			other := bo.Y
			if bo.Y == ssa.Value(errX) {
				other = bo.X
			}
			if k, ok := other.(*ssa.Const); !ok || k.Value != nil {
				continue
			}
			if brefs := bo.Referrers(); brefs != nil {
				for _, br := range *brefs {
					if iff, ok := br.(*ssa.If); ok {
						slot := 1
						if bo.Op == token.EQL {
							slot = 0
						}
						s := iff.Block().Succs[slot]
						if len(s.Preds) == 1 {
							okSucc = s
						}
					}
				}
			}
		}
	}
	if okSucc == nil {
		return false
	}
	behind := func(r ssa.Instruction) bool {
		return r.Block() == okSucc || okSucc.Dominates(r.Block())
	}
	for _, v := range vals {
		if refs := v.Referrers(); refs != nil {
			for _, r := range *refs {
				if _, dbg := r.(*ssa.DebugRef); dbg {
					continue
				}
				if behind(r) {
					continue
				}
				// `x, err := h()` where x is kept in a local variable: the spill happens before
				// the test; what matters is where the variable is read
				if st, ok := r.(*ssa.Store); ok && st.Val == ssa.Value(v) {
					if a, ok := st.Addr.(*ssa.Alloc); ok && !a.Heap {
						okAll := true
						if arefs := a.Referrers(); arefs != nil {
							for _, ar := range *arefs {
								if ar == ssa.Instruction(st) {
									continue
								}
								if _, dbg := ar.(*ssa.DebugRef); dbg {
									continue
								}
								if !behind(ar) {
									okAll = false
								}
							}
						}
						if okAll {
							continue
						}
					}
				}
				return false
			}
		}
	}
	return true
}

// naturalLoop: the header and the blocks that reach one of its back-edge sources without
// passing the header.
func naturalLoop(h *ssa.BasicBlock) map[*ssa.BasicBlock]bool {
	in := map[*ssa.BasicBlock]bool{h: true}
	var stack []*ssa.BasicBlock
	for _, pr := range h.Preds {
		if h.Dominates(pr) && !in[pr] {
			in[pr] = true
			stack = append(stack, pr)
		}
	}
	for len(stack) > 0 {
		b := stack[len(stack)-1]
		stack = stack[:len(stack)-1]
		for _, pr := range b.Preds {
			if !in[pr] {
				in[pr] = true
				stack = append(stack, pr)
			}
		}
	}
	return in
}
