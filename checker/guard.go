package main

import (
	"fmt"
	"go/token"
	"go/types"
	"strconv"
	"strings"

	"golang.org/x/tools/go/ssa"
)

// Atom is the normal form of a branch condition: the condition is true exactly
// when the relation Key holds (Pol=true) or does not hold (Pol=false).
type Atom struct {
	Key string
	Pol bool
}

func (a Atom) String() string {
	if a.Pol {
		return a.Key
	}
	return "!" + a.Key
}

// A is shorthand for an atom spec in tables: A("(x == y)") or A("!(x == y)").
func A(s string) Atom {
	if strings.HasPrefix(s, "!") {
		return Atom{Key: s[1:], Pol: false}
	}
	return Atom{Key: s, Pol: true}
}

func isIntConst(t *Term) (int64, bool) {
	if t.Op != "const" {
		return 0, false
	}
	i, err := strconv.ParseInt(t.S, 10, 64)
	if err != nil {
		return 0, false
	}
	return i, true
}

func ltAtom(l, r *Term, pol bool, op string) Atom {
	// (c < x)  ==  !(x < c+1)   for integers
	if c, ok := isIntConst(l); ok {
		if _, rc := isIntConst(r); !rc {
			return Atom{Key: fmt.Sprintf("(%s %s %d)", r, op, c+1), Pol: !pol}
		}
	}
	return Atom{Key: fmt.Sprintf("(%s %s %s)", l, op, r), Pol: pol}
}

func eqAtom(l, r *Term, pol bool, op string) Atom {
	ls, rs := l.String(), r.String()
	if rs < ls {
		ls, rs = rs, ls
	}
	return Atom{Key: fmt.Sprintf("(%s %s %s)", ls, op, rs), Pol: pol}
}

var zeroInt = &Term{Op: "const", S: "0"}

// condAtom computes the normal form of a boolean SSA value (through its term, so that
// conditions computed by inlined helper functions normalise like inline code).
func condAtom(x *TX, v ssa.Value, at ssa.Instruction) Atom {
	return atomOfTerm(x.Of(v, at))
}

func atomOfTerm(t *Term) Atom {
	switch t.Op {
	case "un":
		if t.S == "!" {
			a := atomOfTerm(t.A[0])
			a.Pol = !a.Pol
			return a
		}
	case "bin":
		l, r := t.A[0], t.A[1]
		switch t.S {
		case "==":
			return eqAtom(l, r, true, "==")
		case "!=":
			return eqAtom(l, r, false, "==")
		case "<":
			return ltAtom(l, r, true, "<")
		case ">":
			return ltAtom(r, l, true, "<")
		case "<=":
			return ltAtom(r, l, false, "<")
		case ">=":
			return ltAtom(l, r, false, "<")
		}
	case "call":
		if strings.HasPrefix(t.S, "(sdkmath.Int).") && len(t.A) >= 1 {
			a := t.A[0]
			var b *Term
			if len(t.A) >= 2 {
				b = t.A[1]
			}
			switch strings.TrimPrefix(t.S, "(sdkmath.Int).") {
			case "GT":
				return ltAtom(b, a, true, "<I")
			case "GTE":
				return ltAtom(a, b, false, "<I")
			case "LT":
				return ltAtom(a, b, true, "<I")
			case "LTE":
				return ltAtom(b, a, false, "<I")
			case "Equal":
				return eqAtom(a, b, true, "==I")
			case "IsPositive":
				return Atom{Key: fmt.Sprintf("(0 <I %s)", a), Pol: true}
			case "IsNegative":
				return Atom{Key: fmt.Sprintf("(%s <I 0)", a), Pol: true}
			case "IsZero":
				return eqAtom(a, zeroInt, true, "==I")
			}
		}
	}
	return Atom{Key: t.String(), Pol: true}
}

// ---------------------------------------------------------------------------
// exits

func isErrorType(T types.Type) bool {
	n, ok := T.(*types.Named)
	return ok && n.Obj().Pkg() == nil && n.Obj().Name() == "error"
}

// errResult returns the error-typed result operand of a return (last result), or nil.
func errResult(ret *ssa.Return) ssa.Value {
	if len(ret.Results) == 0 {
		return nil
	}
	last := ret.Results[len(ret.Results)-1]
	if isErrorType(last.Type()) {
		return last
	}
	return nil
}

// exitKind classifies a return: "error" (error result provably non-nil),
// "ok" (error result is the nil constant), "maybe" (may be nil or not),
// "plain" (function has no error result).
func (p *Prog) exitKind(x *TX, ret *ssa.Return) string {
	ev := errResult(ret)
	if ev == nil {
		return "plain"
	}
	if c, ok := ev.(*ssa.Const); ok && c.Value == nil {
		return "ok"
	}
	if p.nonNilErr(x, ev, ret, 0) {
		return "error"
	}
	return "maybe"
}

var nonNilActive = map[*ssa.Function]bool{}

// nonNilErr: is error value v provably non-nil when instruction at executes?
func (p *Prog) nonNilErr(x *TX, v ssa.Value, at ssa.Instruction, depth int) bool {
	if depth > 8 {
		return false
	}
	if p.dominatedByNonNil(x, v, at) {
		return true
	}
	switch v := v.(type) {
	case *ssa.MakeInterface:
		// make error <- *errors.Error (load of a registered sentinel)
		if ld, ok := v.X.(*ssa.UnOp); ok && ld.Op == token.MUL {
			if g, ok := ld.X.(*ssa.Global); ok {
				return p.isSentinel(g)
			}
		}
		if _, ok := v.X.(*ssa.Alloc); ok {
			return true // pointer to a fresh value
		}
		return false
	case *ssa.UnOp:
		if v.Op == token.MUL {
			if g, ok := v.X.(*ssa.Global); ok {
				return p.isSentinel(g)
			}
		}
	case *ssa.Call:
		callee := v.Call.StaticCallee()
		if callee == nil {
			return false
		}
		if p.newHelper(callee) && isErrorType(v.Type()) && !nonNilActive[callee] {
			// a new helper that only ever returns non-nil errors (`func errNotFound() error`)
			nonNilActive[callee] = true
			defer delete(nonNilActive, callee)
			hx := p.tx(callee)
			rets := allReturns(callee)
			for _, r := range rets {
				if p.exitKind(hx, r) != "error" {
					return false
				}
			}
			return len(rets) > 0
		}
		switch funcName(callee) {
		case "sdkerrors.Wrap", "sdkerrors.Wrapf":
			// Wrap(nil, …) is nil: the wrapped error itself must be non-nil
			return p.nonNilErr(x, v.Call.Args[0], v, depth+1)
		case "fmt.Errorf", "errors.New":
			return true
		case "status.Error", "status.Errorf":
			// non-nil unless the code is OK (0)
			t := x.Of(v.Call.Args[0], v)
			return t.Op == "const" && t.S != "0"
		}
	case *ssa.Phi:
		for i, e := range v.Edges {
			pred := v.Block().Preds[i]
			last := pred.Instrs[len(pred.Instrs)-1]
			if !p.nonNilErr(x, e, last, depth+1) {
				return false
			}
		}
		return true
	case *ssa.ChangeInterface:
		return p.nonNilErr(x, v.X, at, depth+1)
	}
	return false
}

// dominatedByNonNil: at is dominated by the edge on which `v != nil` holds.
func (p *Prog) dominatedByNonNil(x *TX, v ssa.Value, at ssa.Instruction) bool {
	refs := v.Referrers()
	if refs == nil {
		return false
	}
	for _, r := range *refs {
		bo, ok := r.(*ssa.BinOp)
		if !ok || (bo.Op != token.NEQ && bo.Op != token.EQL) {
			continue
		}
		other := bo.Y
		if bo.Y == v {
			other = bo.X
		}
		c, ok := other.(*ssa.Const)
		if !ok || c.Value != nil {
			continue
		}
		brefs := bo.Referrers()
		if brefs == nil {
			continue
		}
		for _, br := range *brefs {
			iff, ok := br.(*ssa.If)
			if !ok {
				continue
			}
			slot := 0
			if bo.Op == token.EQL {
				slot = 1
			}
			succ := iff.Block().Succs[slot]
			if len(succ.Preds) == 1 && (succ == at.Block() || succ.Dominates(at.Block())) {
				return true
			}
		}
	}
	return false
}

var sentinelCache = map[*ssa.Global]bool{}

// isSentinel: global is assigned exactly once, in the package initialiser, from
// errors.Register / errors.New (hence non-nil for the life of the process).
func (p *Prog) isSentinel(g *ssa.Global) bool {
	if v, ok := sentinelCache[g]; ok {
		return v
	}
	res := false
	if g.Pkg != nil {
		if initFn := g.Pkg.Func("init"); initFn != nil {
			n := 0
			for _, b := range initFn.Blocks {
				for _, in := range b.Instrs {
					if st, ok := in.(*ssa.Store); ok && st.Addr == g {
						n++
						if c, ok := st.Val.(*ssa.Call); ok {
							if callee := c.Call.StaticCallee(); callee != nil {
								fn := funcName(callee)
								if fn == "sdkerrors.Register" || fn == "errors.New" || fn == "sdkerrors.RegisterWithGRPCCode" {
									res = true
								}
							}
						}
					}
				}
			}
			if n != 1 {
				res = false
			}
		}
	}
	// written anywhere else in module code?
	if res {
		for _, fn := range p.Funcs {
			if fn.Name() == "init" && fn.Synthetic != "" {
				continue
			}
			for _, b := range fn.Blocks {
				for _, in := range b.Instrs {
					if st, ok := in.(*ssa.Store); ok && st.Addr == g {
						res = false
					}
				}
			}
		}
	}
	sentinelCache[g] = res
	return res
}

// ---------------------------------------------------------------------------
// cut sets

// matchKey: exact match, or pattern with "…" wildcards.
func matchKey(pattern, key string) bool {
	if !strings.Contains(pattern, "…") {
		return pattern == key
	}
	parts := strings.Split(pattern, "…")
	if !strings.HasPrefix(key, parts[0]) {
		return false
	}
	key = key[len(parts[0]):]
	for i := 1; i < len(parts); i++ {
		part := parts[i]
		if i == len(parts)-1 {
			return strings.HasSuffix(key, part)
		}
		idx := strings.Index(key, part)
		if idx < 0 {
			return false
		}
		key = key[idx+len(part):]
	}
	return true
}

type ifInfo struct {
	in   *ssa.If
	atom Atom
	site *spliceSite // non-nil: a branch of a spliced helper, atom in the caller's frame
	t    *Term       // the condition's term (in the frame the atom is printed in)
	// table loop: the condition selects from a literal list by loop counter tblCtr
	// (`for _, e := range []T{…} { if cond(e) … }`); insts[k] is the atom for element k
	tblCtr string
	insts  []Atom
	// named condition (`c := a && b; if c`): the branch tests a boolean phi that is constant
	// from every predecessor but one; coming from that one the branch is `if V`. alt is V's
	// atom (as the branch condition), constSlot the successor the constant entries take.
	alt       *Atom
	altT      *Term
	constSlot int
}

func (p *Prog) ifs(fn *ssa.Function) []ifInfo {
	x := p.tx(fn)
	var out []ifInfo
	for _, b := range fn.Blocks {
		if len(b.Instrs) == 0 {
			continue
		}
		if iff, ok := b.Instrs[len(b.Instrs)-1].(*ssa.If); ok {
			t := x.Of(iff.Cond, iff)
			ii := ifInfo{in: iff, atom: atomOfTerm(t), t: t}
			if v, pred, neg, cs, ok := namedCondition(iff); ok {
				vt := x.Of(v, pred.Instrs[len(pred.Instrs)-1])
				if neg {
					vt = mk("un", "!", vt)
				}
				a := atomOfTerm(vt)
				ii.alt, ii.altT, ii.constSlot = &a, vt, cs
			}
			out = append(out, ii)
		}
	}
	for _, sp := range p.splices(fn) {
		out = append(out, p.spliceIfs(x, sp)...)
	}
	return out
}

// passEdges returns the CFG edges on which one of the guard's atoms is established,
// and the list of matched Ifs.
func passEdges(ifs []ifInfo, guard []Atom) (map[Edge]bool, []ifInfo) {
	cut := map[Edge]bool{}
	var matched []ifInfo
	var tableHits []ifInfo
	for _, ii := range ifs {
		for _, g := range guard {
			if matchKey(g.Key, ii.atom.Key) {
				slot := 0 // true successor: Key holds == atom.Pol
				if ii.atom.Pol != g.Pol {
					slot = 1
				}
				cut[Edge{ii.in.Block(), slot, ii.site}] = true
				matched = append(matched, ii)
				continue
			}
			// a named condition: entries that bring a constant are threaded past this branch
			// (enter), every other entry decides it by V
			if ii.alt != nil && matchKey(g.Key, ii.alt.Key) {
				slot := 0
				if ii.alt.Pol != g.Pol {
					slot = 1
				}
				cut[Edge{ii.in.Block(), slot, ii.site}] = true
				matched = append(matched, ii)
				continue
			}
			// the condition of a table loop, for the element that makes it this guard
			for _, a := range ii.insts {
				if matchKey(g.Key, a.Key) {
					slot := 0
					if a.Pol != g.Pol {
						slot = 1
					}
					cut[Edge{ii.in.Block(), slot, ii.site}] = true
					matched = append(matched, ii)
					tableHits = append(tableHits, ii)
					break
				}
			}
		}
	}
	tableHitsOf[fmt.Sprintf("%p", cut)] = tableHits
	return cut, matched
}

// tableHitsOf hands the table-loop matches of a passEdges call to addTableExits (keyed by
// the identity of the returned edge set).
var tableHitsOf = map[string][]ifInfo{}

// addTableExits: a loop over a literal table runs its body once per element, in order. If
//   (a) with the pass edges deleted the body can no longer get back to the loop header, and
//   (b) from the pass edges onward no target is reachable except by going round through the
//       header again (no `break` to the code after the loop),
// then leaving the loop through the header means every element went through its pass
// edge: the header's exit edge belongs to the guard as well.
func addTableExits(cut map[Edge]bool, ifs []ifInfo, targets []ssa.Instruction) {
	key := fmt.Sprintf("%p", cut)
	hits := tableHitsOf[key]
	delete(tableHitsOf, key)
	// group the hits by the loop (header) they belong to
	type loopHits struct {
		hh   ifInfo
		slot int
		hits []ifInfo
	}
	var loops []*loopHits
	for _, th := range hits {
		for _, hh := range ifs {
			if hh.site != nil || hh.t == nil {
				continue
			}
			slot, ok := tableLoopExit(hh, th.tblCtr)
			if !ok {
				continue
			}
			hb := hh.in.Block()
			tb := th.in.Block()
			if th.site == nil && !(hb.Dominates(tb) && hb != tb) {
				continue
			}
			var lh *loopHits
			for _, l := range loops {
				if l.hh.in == hh.in {
					lh = l
				}
			}
			if lh == nil {
				lh = &loopHits{hh: hh, slot: slot}
				loops = append(loops, lh)
			}
			lh.hits = append(lh.hits, th)
		}
	}
	for _, lh := range loops {
		hb := lh.hh.in.Block()
		body := enter(hb, 1-lh.slot, nil, cut)
		if reachFromNodes(body, cut)[hb] {
			continue // (a) fails: some way round the loop avoids the guard
		}
		// (b): walk on from every pass edge of the loop's guard branches, not continuing past the header
		stop := map[Edge]bool{}
		for e := range cut {
			stop[e] = true
		}
		var starts []Node
		for _, th := range lh.hits {
			tb := th.in.Block()
			for sl := 0; sl < 2; sl++ {
				e := Edge{tb, sl, th.site}
				if cut[e] {
					delete(stop, e)
					starts = append(starts, enter(tb, sl, th.site, stop)...)
					stop[e] = true
				}
			}
		}
		stop[Edge{hb, 0, nil}], stop[Edge{hb, 1, nil}] = true, true
		reach := reachFromNodes(starts, stop)
		leaks := false
		for _, t := range targets {
			if reach[t.Block()] {
				leaks = true
			}
		}
		if leaks {
			continue
		}
		cut[Edge{hb, lh.slot, nil}] = true
	}
}

// tableLoopExit: hh is the header test `ctr < N` of a counting loop (N a constant >= 1);
// returns the successor slot on which the loop is left.
func tableLoopExit(hh ifInfo, ctr string) (int, bool) {
	t := hh.t
	if t == nil || t.Op != "bin" || t.S != "<" || len(t.A) != 2 {
		return 0, false
	}
	if t.A[0].Op != "ind" || t.A[0].S != ctr || !strings.HasSuffix(ctr, "0") {
		return 0, false
	}
	if n, ok := isIntConst(t.A[1]); !ok || n < 1 {
		return 0, false
	}
	return 1, true // the condition is false on the exit edge
}

// CutResult describes the outcome of a cut query.
type CutResult struct {
	Holds     bool
	Matched   int
	Leak      ssa.Instruction   // a target still reachable
	Path      []*ssa.BasicBlock // a path to it that avoids every pass edge
	FailLeak  string            // description of a fail-arm violation ("" if clean)
	FailPaths []*ssa.BasicBlock
}

// cut: is every target unreachable from the function entry once the pass edges
// of guard are deleted?
func cutQuery(fn *ssa.Function, ifs []ifInfo, guard []Atom, targets []ssa.Instruction) CutResult {
	edges, matched := passEdges(ifs, guard)
	addTableExits(edges, ifs, targets)
	res := CutResult{Matched: len(matched)}
	if len(matched) == 0 {
		res.Holds = false
		if len(targets) > 0 {
			res.Leak = targets[0]
		}
		return res
	}
	reach := reachFrom([]*ssa.BasicBlock{fn.Blocks[0]}, edges)
	for _, t := range targets {
		if reach[t.Block()] {
			res.Leak = t
			res.Path = pathTo(fn.Blocks[0], t.Block(), edges)
			return res
		}
	}
	res.Holds = true
	return res
}

// cutFrom is cut with an explicit start block (for branch-local scopes).
func cutFromQuery(fn *ssa.Function, ifs []ifInfo, start *ssa.BasicBlock, guard []Atom, targets []ssa.Instruction) CutResult {
	edges, matched := passEdges(ifs, guard)
	addTableExits(edges, ifs, targets)
	res := CutResult{Matched: len(matched)}
	if len(matched) == 0 {
		if len(targets) > 0 {
			res.Leak = targets[0]
		}
		return res
	}
	reach := reachFrom([]*ssa.BasicBlock{start}, edges)
	for _, t := range targets {
		if reach[t.Block()] {
			res.Leak = t
			res.Path = pathTo(start, t.Block(), edges)
			return res
		}
	}
	res.Holds = true
	return res
}

// failArms checks the fail-arm rule for a guard: from the non-pass successor of
// every matched If, with all pass edges deleted, every reachable exit is an
// error exit (or an allowed panic) and none of the effect sites is reachable.
func (p *Prog) failArms(fn *ssa.Function, ifs []ifInfo, guard []Atom, effectSites []ssa.Instruction, allowPanic bool) (bool, string) {
	edges, matched := passEdges(ifs, guard)
	x := p.tx(fn)
	for _, ii := range matched {
		b := ii.in.Block()
		var starts []Node
		for slot := range b.Succs {
			if !edges[Edge{b, slot, ii.site}] {
				starts = append(starts, enter(b, slot, ii.site, edges)...)
			}
		}
		nodes := reachNodes(starts, edges)
		reach := map[*ssa.BasicBlock]bool{}
		for n := range nodes {
			reach[n.B] = true
		}
		for n := range nodes {
			rb := n.B
			for _, in := range rb.Instrs {
				switch in := in.(type) {
				case *ssa.Return:
					if rb.Parent() != fn {
						// a helper's return: an exit of fn only when reached by tail calls all the way
						if n.Site == nil || !tailChain(n.Site) {
							continue
						}
						if _, isTail := p.tailReturn(in); isTail {
							continue
						}
						if k := p.exitKind(p.tx(rb.Parent()), in); k != "error" {
							return false, fmt.Sprintf("fail arm of %q at %s reaches a non-error return at %s (kind %s)", ii.atom.Key, p.instrPos(ii.in), p.instrPos(in), k)
						}
						continue
					}
					if _, isTail := p.tailReturn(in); isTail {
						continue // its exits are the helper's, judged where they are reached
					}
					if mes := p.mergedExits(x, in); mes != nil {
						// judged per predecessor that the fail arm can come through
						for _, me := range mes {
							fromIf := false
							if me.pred == b {
								for slot, sb := range b.Succs {
									if sb == rb && !edges[Edge{b, slot, ii.site}] {
										fromIf = true // the branch's own non-pass edge leads straight into the merged return
									}
								}
							}
							if (reach[me.pred] || fromIf) && me.kind != "error" {
								return false, fmt.Sprintf("fail arm of %q at %s reaches a non-error exit at %s (kind %s)", ii.atom.Key, p.instrPos(ii.in), p.instrPos(in), me.kind)
							}
						}
						continue
					}
					if k := p.exitKind(x, in); k != "error" {
						return false, fmt.Sprintf("fail arm of %q at %s reaches a non-error return at %s (kind %s)", ii.atom.Key, p.instrPos(ii.in), p.instrPos(in), k)
					}
				case *ssa.Panic:
					if !allowPanic {
						return false, fmt.Sprintf("fail arm of %q reaches panic at %s", ii.atom.Key, p.instrPos(in))
					}
				}
			}
		}
		for _, e := range effectSites {
			if reach[e.Block()] {
				return false, fmt.Sprintf("fail arm of %q at %s reaches effect site %s", ii.atom.Key, p.instrPos(ii.in), p.instrPos(e))
			}
		}
	}
	return true, ""
}

func (p *Prog) pathString(path []*ssa.BasicBlock) string {
	var parts []string
	for _, b := range path {
		pos := "-"
		for _, in := range b.Instrs {
			if in.Pos().IsValid() {
				pos = p.pos(in.Pos())
				break
			}
		}
		parts = append(parts, fmt.Sprintf("b%d(%s)", b.Index, pos))
	}
	return strings.Join(parts, " -> ")
}

// mergedExit is one way into a return whose results are phis of its own block
// (`if c { res = X } else { err = E }; return res, err`): the predecessor, the result
// values it contributes, and the instruction whose reachability stands for that exit (the
// predecessor's unconditional jump; the return itself when the edge is conditional).
type mergedExit struct {
	pred *ssa.BasicBlock
	vals []ssa.Value
	at   ssa.Instruction
	kind string
}

// mergedExits splits a return fed by phis of its own (phi-only) block by predecessor.
// nil when the return is not of that shape.
func (p *Prog) mergedExits(x *TX, ret *ssa.Return) []mergedExit {
	b := ret.Block()
	hasPhi := false
	for _, in := range b.Instrs {
		if _, ok := in.(*ssa.Phi); ok {
			hasPhi = true
		}
	}
	// (the block may do more than return — build the response, say: what each predecessor
	// contributes to the returned phis is still decided on the edge into the block)
	if !hasPhi || len(b.Preds) < 2 {
		return nil
	}
	uses := false
	for _, rv := range ret.Results {
		if phi, ok := rv.(*ssa.Phi); ok && phi.Block() == b {
			uses = true
		}
	}
	if !uses {
		return nil
	}
	// when the block does more than return, the split is by the error result only (the verdict
	// differs by edge) and the block itself must not call anything: then "reaching the exit" and
	// "reaching the predecessor's jump" are the same event for every effect rule
	pure := true
	for _, in := range b.Instrs {
		switch in.(type) {
		case *ssa.Phi, *ssa.Return, *ssa.DebugRef:
		case ssa.CallInstruction:
			return nil
		default:
			pure = false
		}
	}
	if !pure {
		ev := errResult(ret)
		if phi, ok := ev.(*ssa.Phi); !ok || phi.Block() != b {
			return nil
		}
	}
	var out []mergedExit
	for i, pred := range b.Preds {
		me := mergedExit{pred: pred, at: ret}
		last := pred.Instrs[len(pred.Instrs)-1]
		if _, isJump := last.(*ssa.Jump); isJump {
			me.at = last
		}
		for _, rv := range ret.Results {
			if phi, ok := rv.(*ssa.Phi); ok && phi.Block() == b {
				me.vals = append(me.vals, phi.Edges[i])
			} else {
				me.vals = append(me.vals, rv)
			}
		}
		me.kind = "plain"
		if len(me.vals) > 0 && isErrorType(me.vals[len(me.vals)-1].Type()) {
			ev := me.vals[len(me.vals)-1]
			switch {
			case isNilConst(ev):
				me.kind = "ok"
			case p.nonNilErr(x, ev, last, 0):
				me.kind = "error"
			default:
				me.kind = "maybe"
			}
		}
		out = append(out, me)
	}
	return out
}

func isNilConst(v ssa.Value) bool {
	c, ok := v.(*ssa.Const)
	return ok && c.Value == nil
}

var tailActive = map[*ssa.Function]bool{}

// returnsOf lists return instructions of fn by kind. A phi-merged return contributes, as
// success-capable exits, the jumps of the predecessors that bring a possibly-nil error.
func (p *Prog) returnsOf(fn *ssa.Function) (all []*ssa.Return, successCapable []ssa.Instruction) {
	x := p.tx(fn)
	for _, b := range fn.Blocks {
		for _, in := range b.Instrs {
			if r, ok := in.(*ssa.Return); ok {
				all = append(all, r)
				if h, ok := p.tailReturn(r); ok && !tailActive[h] {
					// `return helper(...)`: the helper's success-capable exits are this function's
					tailActive[h] = true
					_, hs := p.returnsOf(h)
					delete(tailActive, h)
					successCapable = append(successCapable, hs...)
					continue
				}
				if mes := p.mergedExits(x, r); mes != nil {
					for _, me := range mes {
						if me.kind != "error" {
							successCapable = append(successCapable, me.at)
						}
					}
					continue
				}
				if k := p.exitKind(x, r); k != "error" {
					successCapable = append(successCapable, r)
				}
			}
		}
	}
	return
}

// rejectEdges lists If successors from which no success-capable return is
// reachable while the other successor can reach one (the "reject arms").
func (p *Prog) rejectEdges(fn *ssa.Function, ifs []ifInfo) []struct {
	If   ifInfo
	Slot int
	// RejectWhen: the atom that holds on the reject edge
	RejectWhen Atom
} {
	_, succ := p.returnsOf(fn)
	succBlocks := map[*ssa.BasicBlock]bool{}
	// a return fed by phis of its own block succeeds or fails by the edge taken into it
	merged := map[*ssa.BasicBlock]map[*ssa.BasicBlock]bool{} // return block -> predecessor -> brings a possibly-nil error
	x := p.tx(fn)
	for _, ret := range allReturns(fn) {
		if _, isTail := p.tailReturn(ret); isTail {
			continue
		}
		if mes := p.mergedExits(x, ret); mes != nil {
			m := map[*ssa.BasicBlock]bool{}
			for _, me := range mes {
				if me.kind != "error" {
					m[me.pred] = true
				}
			}
			merged[ret.Block()] = m
		}
	}
	for _, s := range succ {
		if s.Parent() == fn && merged[s.Block()] != nil {
			if _, isRet := s.(*ssa.Return); isRet {
				continue // judged by edge below
			}
		}
		succBlocks[s.Block()] = true
	}
	canSucceedFrom := func(b *ssa.BasicBlock, slot int, site *spliceSite) bool {
		if site == nil && slot < len(b.Succs) {
			if m := merged[b.Succs[slot]]; m != nil && m[b] {
				return true // this very edge enters the merged return with a possibly-nil error
			}
		}
		reach := reachFromNodes(enter(b, slot, site, nil), nil)
		for rb := range reach {
			if succBlocks[rb] {
				return true
			}
			if rb.Parent() == fn {
				for _, sb := range rb.Succs {
					if m := merged[sb]; m != nil && m[rb] {
						return true
					}
				}
			}
		}
		return false
	}
	var out []struct {
		If         ifInfo
		Slot       int
		RejectWhen Atom
	}
	for _, ii := range ifs {
		b := ii.in.Block()
		var ctx *spliceSite
		if ii.site != nil && ii.site != offGraph {
			ctx = ii.site
		}
		if ii.site != offGraph && p.guardDetour(b, ctx) != nil {
			continue // decided by the helper's own branches, which are in ifs
		}
		c0, c1 := canSucceedFrom(b, 0, ii.site), canSucceedFrom(b, 1, ii.site)
		if c0 == c1 {
			continue
		}
		slot := 0
		if c0 {
			slot = 1
		}
		when := ii.atom
		if ii.alt != nil {
			// constant entries are threaded past this branch (their own branches are judged
			// where they are): whoever takes this edge came through the deciding predecessor
			when = *ii.alt
		}
		if slot == 1 {
			when.Pol = !when.Pol
		}
		out = append(out, struct {
			If         ifInfo
			Slot       int
			RejectWhen Atom
		}{ii, slot, when})
	}
	return out
}
