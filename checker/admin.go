package main

import (
	"fmt"
	"sort"
	"strings"

	"golang.org/x/tools/go/ssa"
)

const adapter = "runtime.KVStoreAdapter(k.storeService.OpenKVStore(ctx))"

func prefixStore(region string) string {
	return fmt.Sprintf("prefix.NewStore(%s,[]byte(%q))", adapter, region)
}

// regionWriters returns, for a store region, the module functions containing a
// primitive W or D on it, as "W:(keeper.Keeper).SetOwner" strings.
func (p *Prog) regionWriters(region string) (names []string, fns map[string]*ssa.Function) {
	fns = map[string]*ssa.Function{}
	for _, fn := range p.Funcs {
		for _, e := range p.own(fn) {
			if (e.Kind == "W" || e.Kind == "D") && e.Region == region {
				n := e.Kind + ":" + funcName(fn)
				if fns[n] == nil {
					names = append(names, n)
					fns[n] = fn
				}
			}
		}
	}
	sort.Strings(names)
	return
}

// callerNames: direct callers of fn in module code (closures attributed to their top-level parent).
func (p *Prog) callerNames(fn *ssa.Function) []string {
	set := map[string]bool{}
	for caller := range p.callersOf(fn) {
		top := caller
		for top.Parent() != nil {
			top = top.Parent()
		}
		set[funcName(top)] = true
	}
	var out []string
	for n := range set {
		out = append(out, n)
	}
	sort.Strings(out)
	return out
}

func sameSet(a, b []string) bool {
	if len(a) != len(b) {
		return false
	}
	aa := append([]string(nil), a...)
	bb := append([]string(nil), b...)
	sort.Strings(aa)
	sort.Strings(bb)
	for i := range aa {
		if aa[i] != bb[i] {
			return false
		}
	}
	return true
}

// writersRule: F-writers(region) == wantWriters, and callers of each writer == wantCallers[writer].
func writersRule(p *Prog, r *Report, region string, wantWriters []string, wantCallers map[string][]string) {
	names, fns := p.regionWriters(region)
	r.check(sameSet(names, wantWriters), "F-writers", "F-writers/"+region, "",
		fmt.Sprintf("writers of %s = %v", region, names),
		fmt.Sprintf("writers of region %s are %v, documented: %v", region, names, wantWriters))
	for _, n := range names {
		fn := fns[n]
		callers := p.callerNames(fn)
		want, ok := wantCallers[n]
		if !ok {
			continue
		}
		r.check(sameSet(callers, want), "CG-callers", "CG-callers/"+region+"/"+n, p.pos(fn.Pos()),
			fmt.Sprintf("callers of %s = %v", n, callers),
			fmt.Sprintf("callers of %s are %v, documented: %v — another code path can now change region %s", n, callers, want, region))
		if uses := p.funcValueUses(fn); len(uses) > 0 {
			r.fail("CG-callers", "CG-fnvalue/"+region+"/"+n, uses[0], fmt.Sprintf("%s is used as a function value at %v (callers no longer enumerable)", n, uses))
		}
	}
}

// foundGetterContract checks a (val, found) getter: it reads exactly `region`
// under key term `key`, returns (zero,false) when the stored bytes are nil and
// (decode(bytes), true) otherwise.
func foundGetterContract(p *Prog, r *Report, getter, region, key, zero string) {
	fn := p.Func("keeper.Keeper." + getter)
	c := p.fc(r, fn, getter, nil)
	if c == nil {
		return
	}
	var reads []string
	for _, e := range p.closure(fn) {
		switch e.Kind {
		case "R", "ITER", "PAGE":
			reads = append(reads, e.Region+" "+e.Key.String())
		case "W", "D", "LEDGER", "EVENT":
			r.fail("getter-contract", "getter-contract/"+getter+"/effect-free", p.instrPos(e.In), getter+" has effect "+e.String())
		}
	}
	r.check(len(reads) == 1 && reads[0] == region+" "+key, "getter-contract", "getter-contract/"+getter+"/region", c.pos(),
		getter+" reads exactly "+region+" under "+key, fmt.Sprintf("%s reads %v, expected only %s under %s", getter, reads, region, key))
	get := "(prefix.Store).Get(" + prefixStore(region) + "," + key + ")"
	vrs := c.virtualReturns()
	// single-exit form: `found = b != nil; if found { decode }; return val, found`
	if len(vrs) == 1 && len(vrs[0].vals) == 2 && vrs[0].cfn == c.fn &&
		(vrs[0].vals[1] == "("+get+" != nil)" || vrs[0].vals[1] == "(nil != "+get+")") {
		vr := vrs[0]
		present := []Atom{A("!(" + get + " == nil)")}
		c.teq("getter-contract", "return/value", vr.vals[0], phiOf([]*Term{mk("const", "decode("+get+")"), mk("const", zero)}).String(), p.instrPos(vr.at))
		r.ok("getter-contract", "getter-contract/"+getter+"/return/flag", p.instrPos(vr.at), "found is the presence test of the slot itself")
		dec := c.calls("k.cdc.MustUnmarshal")
		if len(dec) != 1 || dec[0].Parent() != c.fn {
			r.fail("getter-contract", "getter-contract/"+getter+"/returns", c.pos(), fmt.Sprintf("%d decode calls in the single-exit form", len(dec)))
			return
		}
		r.ok("getter-contract", "getter-contract/"+getter+"/returns", c.pos(), "one return: (decoded-or-zero, present)")
		// decoded only when present, and always when present
		c.requireCut("getter-contract", "found-implies-present", present, []ssa.Instruction{dec[0]})
		edges, matched := passEdges(c.ifs, present)
		always := len(matched) > 0
		fi := p.info(c.fn)
		for _, ii := range matched {
			b := ii.in.Block()
			for slot, s := range b.Succs {
				if edges[Edge{b, slot, ii.site}] && fi.blockReachesAvoiding(s, vr.at, []ssa.Instruction{dec[0]}) {
					always = false
				}
			}
		}
		r.check(always, "getter-contract", "getter-contract/"+getter+"/present-implies-decoded", p.instrPos(dec[0]),
			"a present entry is always decoded before the return", "a present entry can be reported found without being decoded")
		return
	}
	n := 0
	var withTrue []vret
	for _, vr := range vrs {
		if len(vr.vals) != 2 {
			continue
		}
		n++
		v, f := vr.vals[0], vr.vals[1]
		okPair := (v == zero && f == "false") || (v == "decode("+get+")" && f == "true")
		r.check(okPair, "getter-contract", "getter-contract/"+getter+"/return/"+f, p.instrPos(vr.at),
			"returns ("+strings.ReplaceAll(v, get, "GET")+", "+f+")", "unexpected return pair ("+v+", "+f+") in "+getter)
		if f != "false" {
			withTrue = append(withTrue, vr)
		}
	}
	r.check(n == 2, "getter-contract", "getter-contract/"+getter+"/returns", c.pos(), "two returns: not-found and found", fmt.Sprintf("%d returns", n))
	c.requireCutRets("getter-contract", "found-implies-present", []Atom{A("!(" + get + " == nil)")}, withTrue)
}

func flagGetterContract(p *Prog, r *Report, flag string) {
	region := flag + "/value/"
	foundGetterContract(p, r, "Get"+flag, region, fmt.Sprintf("[]byte(%q)", region), "types."+flag+"{}")
}

// notPaused is the guard "flag not set": either the flag entry is absent, or its Paused field is false.
func notPaused(flag string) []Atom {
	g := "k.Get" + flag + "(ctx)"
	return []Atom{A("!" + g + "#1"), A("!" + g + "#0.Paused")}
}

func handlerFn(p *Prog, name string) *ssa.Function {
	return p.declFunc(p.Func("keeper.msgServer." + name))
}

// ---------------------------------------------------------------------------
// C11

func init() { register("C11", "other", runC11) }

func runC11(p *Prog, r *Report, tier string) {
	r.Rule = "F-writers/CG-callers per role slot; T-eq of written values; G-mpt of the pending-slot delete; address-validation guards"
	r.Explanation = "Decided: (1) who can write each of the five role slots: owner <- SetOwner <- {AcceptOwner, InitGenesis}; pending-owner <- SetPendingOwner <- {UpdateOwner}, " +
		"DeletePendingOwner <- {AcceptOwner}; attester-manager/pauser/token-controller <- their setter <- {their Update handler, InitGenesis}; no setter is used as a function value. " +
		"(2) AcceptOwner writes owner := the pending value it compared with msg.From and deletes the pending slot on every success path. " +
		"(3) UpdateOwner writes only pending := msg.NewOwner behind a successful bech32 parse of that same field; the three sibling updates write msg.New<Role> behind validation of that field. " +
		"Lifecycle argument from these shapes: accept requires pending = submitter (C10), sets owner := pending and pending := absent, so a second accept finds no pending owner; " +
		"a new UpdateOwner overwrites pending, so the superseded address fails the equality; nothing else writes a role. The induction over histories is argued, not mechanised."
	r.Assumptions = []string{"go/ssa faithfully represents the module code", "role authorisation itself is C10", "cosmos-sdk discards the writes of a failed message"}
	r.Trusted = r.Assumptions

	const S = "(keeper.Keeper)."
	const H = "(keeper.msgServer)."
	writersRule(p, r, "raw:owner", []string{"W:" + S + "SetOwner"}, map[string][]string{"W:" + S + "SetOwner": {H + "AcceptOwner", "cctp.InitGenesis"}})
	writersRule(p, r, "raw:pending-owner", []string{"W:" + S + "SetPendingOwner", "D:" + S + "DeletePendingOwner"}, map[string][]string{
		"W:" + S + "SetPendingOwner": {H + "UpdateOwner"}, "D:" + S + "DeletePendingOwner": {H + "AcceptOwner"}})
	writersRule(p, r, "raw:attester-manager", []string{"W:" + S + "SetAttesterManager"}, map[string][]string{"W:" + S + "SetAttesterManager": {H + "UpdateAttesterManager", "cctp.InitGenesis"}})
	writersRule(p, r, "raw:pauser", []string{"W:" + S + "SetPauser"}, map[string][]string{"W:" + S + "SetPauser": {H + "UpdatePauser", "cctp.InitGenesis"}})
	writersRule(p, r, "raw:token-controller", []string{"W:" + S + "SetTokenController"}, map[string][]string{"W:" + S + "SetTokenController": {H + "UpdateTokenController", "cctp.InitGenesis"}})

	// setters store exactly their argument under their own key
	for setter, keyG := range map[string]string{"SetOwner": "types.OwnerKey", "SetPendingOwner": "types.PendingOwnerKey", "SetAttesterManager": "types.AttesterManagerKey",
		"SetPauser": "types.PauserKey", "SetTokenController": "types.TokenControllerKey"} {
		fn := p.Func("keeper.Keeper." + setter)
		c := p.fc(r, fn, setter, nil)
		if c == nil {
			continue
		}
		var ws []Effect
		for _, e := range p.own(fn) {
			if e.Kind == "W" || e.Kind == "D" {
				ws = append(ws, e)
			}
		}
		if len(ws) != 1 {
			r.fail("T-eq", "T-eq/"+setter+"/single-write", c.pos(), fmt.Sprintf("%s performs %d store writes, expected 1", setter, len(ws)))
			continue
		}
		c.teq("T-eq", "key", ws[0].Key.String(), keyG, p.instrPos(ws[0].In))
		c.teq("T-eq", "value", ws[0].Val.String(), "[]byte(p2)", p.instrPos(ws[0].In))
	}

	// AcceptOwner
	if c := p.fc(r, handlerFn(p, "AcceptOwner"), "AcceptOwner", nil); c != nil {
		if call := c.oneCall("T-eq", "k.SetOwner"); call != nil {
			c.teq("T-eq", "SetOwner.arg", c.args(call)[1], "k.GetPendingOwner(ctx)#0", p.instrPos(call))
			c.mustPass("G-mpt", "SetOwner", []ssa.Instruction{call}, c.successReturns())
		}
		if call := c.oneCall("G-mpt", "k.DeletePendingOwner"); call != nil {
			c.mustPass("G-mpt", "DeletePendingOwner", []ssa.Instruction{call}, c.successReturns())
		}
	}
	// UpdateOwner and siblings
	for _, row := range []struct{ h, setter, field string }{
		{"UpdateOwner", "SetPendingOwner", "NewOwner"},
		{"UpdateAttesterManager", "SetAttesterManager", "NewAttesterManager"},
		{"UpdatePauser", "SetPauser", "NewPauser"},
		{"UpdateTokenController", "SetTokenController", "NewTokenController"},
	} {
		c := p.fc(r, handlerFn(p, row.h), row.h, nil)
		if c == nil {
			continue
		}
		call := c.oneCall("T-eq", "k."+row.setter)
		if call == nil {
			continue
		}
		c.teq("T-eq", row.setter+".arg", c.args(call)[1], "p2."+row.field, p.instrPos(call))
		valid := []Atom{A("(nil == sdk.AccAddressFromBech32(p2." + row.field + ")#1)")}
		c.requireCut("G-cut", "valid-address("+row.field+")", valid, append([]ssa.Instruction{call}, c.successReturns()...))
		c.requireFailArm("G-fail", "valid-address("+row.field+")", valid, false)
		c.mustPass("G-mpt", row.setter, []ssa.Instruction{call}, c.successReturns())
	}
}

// ---------------------------------------------------------------------------
// C12

func init() { register("C12", "other", runC12) }

const (
	flagBM = "BurningAndMintingPaused"
	flagSR = "SendingAndReceivingMessagesPaused"
)

func runC12(p *Prog, r *Report, tier string) {
	r.Rule = "G-cut positive cells, F-neg read-set negative cells, F-writers + T-eq constants, over 2 flags x (7 user flows + 18 admin + 19 queries)"
	r.Explanation = "Decided, all clauses structural: the sending/receiving flag cuts the MessageSent emission in sendMessage (the only emitter; its callers are SendMessage, SendMessageWithCaller, ReplaceMessage, " +
		"and the two senders are called only by depositForBurn), everything in ReplaceMessage and everything in ReceiveMessage; the burning/minting flag cuts debit/burn/emit in depositForBurn, everything in ReplaceDepositForBurn and the Mint in ReceiveMessage, " +
		"where its read is confined to the module-recipient branch so other messages are still received. Negative cells: the burning/minting flag is not in the read set of SendMessage, SendMessageWithCaller, ReplaceMessage; neither flag is read by any of the 18 " +
		"administrative handlers nor by any query but its own. Each flag is written only by its setter, called only by its pause handler (constant true), its unpause handler (constant false) and InitGenesis. " +
		"Idempotence and 'unpause restores' follow from constant-write-to-own-slot."
	r.Assumptions = []string{"go/ssa faithfully represents the module code", "getter contract: found=false implies the zero value (checked)", "pauser authorisation is C10"}
	r.Trusted = r.Assumptions
	ctxDiscipline(p, r, allTxRoots(p))

	flagGetterContract(p, r, flagBM)
	flagGetterContract(p, r, flagSR)

	// --- positive cells
	sm := p.Func("keeper.msgServer.sendMessage")
	if c := p.fc(r, sm, "sendMessage", nil); c != nil {
		sent := c.calls("(sdk.Context).EventManager(ctx).EmitTypedEvent")
		c.requireCut("G-cut", "SR-pause/emit+success", notPaused(flagSR), append(c.instrs(sent), c.successReturns()...))
		c.requireFailArm("G-fail", "SR-pause", notPaused(flagSR), false)
		callers := p.callerNames(sm)
		r.check(sameSet(callers, []string{"(keeper.msgServer).SendMessage", "(keeper.msgServer).SendMessageWithCaller", "(keeper.msgServer).ReplaceMessage"}),
			"CG-callers", "CG-callers/sendMessage", c.pos(), fmt.Sprintf("callers = %v", callers), fmt.Sprintf("callers of sendMessage are %v", callers))
	}
	// MessageSent has exactly one primitive emission site
	var sentSites []string
	for _, fn := range p.Funcs {
		for _, e := range p.own(fn) {
			if e.Kind == "EVENT" && e.Region == "*types.MessageSent" {
				sentSites = append(sentSites, funcName(fn))
			}
		}
	}
	r.check(len(sentSites) == 1 && sentSites[0] == "(keeper.msgServer).sendMessage", "F-writers", "F-writers/EVENT MessageSent", "",
		"MessageSent is emitted only in sendMessage", fmt.Sprintf("MessageSent emission sites: %v", sentSites))
	for _, n := range []string{"SendMessage", "SendMessageWithCaller"} {
		fn := handlerFn(p, n)
		callers := p.callerNames(fn)
		r.check(sameSet(callers, []string{"(keeper.msgServer).depositForBurn"}), "CG-callers", "CG-callers/"+n, "",
			fmt.Sprintf("in-module callers of %s = %v", n, callers), fmt.Sprintf("in-module callers of %s are %v", n, callers))
	}
	if c := p.fc(r, handlerFn(p, "ReplaceMessage"), "ReplaceMessage", nil); c != nil {
		c.requireCut("G-cut", "SR-pause/all", notPaused(flagSR), append(c.effectSites(), c.successReturns()...))
		c.requireFailArm("G-fail", "SR-pause", notPaused(flagSR), false)
		callers := p.callerNames(c.fn)
		r.check(sameSet(callers, []string{"(keeper.msgServer).ReplaceDepositForBurn"}), "CG-callers", "CG-callers/ReplaceMessage", c.pos(),
			fmt.Sprintf("in-module callers = %v", callers), fmt.Sprintf("in-module callers of ReplaceMessage are %v", callers))
	}
	if c := p.fc(r, handlerFn(p, "ReceiveMessage"), "ReceiveMessage", [][2]string{{"M", abM}}); c != nil {
		c.requireCut("G-cut", "SR-pause/all", notPaused(flagSR), append(c.effectSites(), c.successReturns()...))
		c.requireFailArm("G-fail", "SR-pause", notPaused(flagSR), false)
		mint := c.calls("k.fiattokenfactory.Mint")
		c.requireCut("G-cut", "BM-pause/mint", notPaused(flagBM), c.instrs(mint))
		c.requireFailArm("G-fail", "BM-pause", notPaused(flagBM), false)
		// the BM read is confined to the module branch, and a success path avoids it
		bmRead := c.calls("k.GetBurningAndMintingPaused")
		c.requireCut("G-cut", "BM-read-only-in-module-branch", []Atom{A("bytes.Equal(M.Recipient,types.PaddedModuleAddress)")}, c.instrs(bmRead))
		fi := p.info(c.fn)
		free := false
		for _, s := range c.successReturns() {
			if fi.entryReachesAvoiding(c.siteInFn(s), c.instrs(bmRead)) {
				free = true
			}
		}
		r.check(free, "F-neg", "F-neg/ReceiveMessage/non-module-success-avoids-BM-flag", c.pos(),
			"a success return is reachable without reading the burning/minting flag (non-module messages are still received)",
			"every success path of ReceiveMessage now reads the burning/minting flag: the flag blocks flows it does not name")
	}
	if c := p.fc(r, p.Func("keeper.msgServer.depositForBurn"), "depositForBurn", nil); c != nil {
		g := notPaused(flagBM) // the deposit ignores `found`; equivalent by the getter contract (not found => zero value)
		c.requireCut("G-cut", "BM-pause/all", g, append(c.effectSites(), c.successReturns()...))
		c.requireFailArm("G-fail", "BM-pause", g, false)
		callers := p.callerNames(c.fn)
		r.check(sameSet(callers, []string{"(keeper.msgServer).DepositForBurn", "(keeper.msgServer).DepositForBurnWithCaller"}), "CG-callers", "CG-callers/depositForBurn", c.pos(),
			fmt.Sprintf("callers = %v", callers), fmt.Sprintf("callers of depositForBurn are %v", callers))
	}
	for _, n := range []string{"DepositForBurn", "DepositForBurnWithCaller"} {
		// the handlers themselves have no effect outside depositForBurn
		c := p.fc(r, handlerFn(p, n), n, nil)
		if c == nil {
			continue
		}
		dfb := c.calls("k.depositForBurn")
		sites := c.effectSites()
		okOnly := len(dfb) == 1 && len(sites) == 1 && sites[0] == ssa.Instruction(dfb[0])
		r.check(okOnly, "G-cut", "G-cut/"+n+"/effects-only-via-depositForBurn", c.pos(), "all effects of "+n+" happen inside depositForBurn",
			fmt.Sprintf("%s has effect sites outside its single depositForBurn call (%d sites, %d calls)", n, len(sites), len(dfb)))
	}
	if c := p.fc(r, handlerFn(p, "ReplaceDepositForBurn"), "ReplaceDepositForBurn", nil); c != nil {
		c.requireCut("G-cut", "BM-pause/all", notPaused(flagBM), append(c.effectSites(), c.successReturns()...))
		c.requireFailArm("G-fail", "BM-pause", notPaused(flagBM), false)
	}

	// --- negative cells: read sets
	reads := func(fn *ssa.Function) map[string]bool {
		m := map[string]bool{}
		for _, e := range p.closure(fn) {
			if e.Kind == "R" || e.Kind == "ITER" || e.Kind == "PAGE" {
				m[e.Region] = true
			}
		}
		return m
	}
	bmR, srR := flagBM+"/value/", flagSR+"/value/"
	for _, n := range []string{"SendMessage", "SendMessageWithCaller", "ReplaceMessage"} {
		rs := reads(handlerFn(p, n))
		r.check(!rs[bmR], "F-neg", "F-neg/"+n+"/BM-flag-not-read", "", n+" never reads the burning/minting flag", n+" reads the burning/minting flag: a mint/burn pause now affects plain messages")
	}
	cells := 0
	for _, h := range p.txHandlers() {
		if _, admin := roleTable[h.Name]; !admin {
			continue
		}
		rs := reads(h.Fn)
		cells += 2
		r.check(!rs[bmR] && !rs[srR], "F-neg", "F-neg/admin/"+h.Name+"/no-flag-read", "", "administrative handler reads neither pause flag",
			fmt.Sprintf("administrative handler %s reads a pause flag (BM=%v SR=%v): administration is no longer available while paused", h.Name, rs[bmR], rs[srR]))
	}
	for _, q := range p.queryHandlers() {
		rs := reads(q.Fn)
		cells += 2
		okq := (!rs[bmR] || q.Name == flagBM) && (!rs[srR] || q.Name == flagSR)
		r.check(okq, "F-neg", "F-neg/query/"+q.Name+"/no-foreign-flag-read", "", "query reads no pause flag but its own",
			fmt.Sprintf("query %s reads a pause flag that is not its own (BM=%v SR=%v)", q.Name, rs[bmR], rs[srR]))
	}
	r.floor("negative-cells", cells, 2*(18+19))

	// --- writers and constants
	const S = "(keeper.Keeper)."
	const H = "(keeper.msgServer)."
	writersRule(p, r, bmR, []string{"W:" + S + "SetBurningAndMintingPaused"}, map[string][]string{
		"W:" + S + "SetBurningAndMintingPaused": {H + "PauseBurningAndMinting", H + "UnpauseBurningAndMinting", "cctp.InitGenesis"}})
	writersRule(p, r, srR, []string{"W:" + S + "SetSendingAndReceivingMessagesPaused"}, map[string][]string{
		"W:" + S + "SetSendingAndReceivingMessagesPaused": {H + "PauseSendingAndReceivingMessages", H + "UnpauseSendingAndReceivingMessages", "cctp.InitGenesis"}})
	for _, row := range []struct {
		h, flag string
		val     bool
	}{{"PauseBurningAndMinting", flagBM, true}, {"UnpauseBurningAndMinting", flagBM, false},
		{"PauseSendingAndReceivingMessages", flagSR, true}, {"UnpauseSendingAndReceivingMessages", flagSR, false}} {
		c := p.fc(r, handlerFn(p, row.h), row.h, nil)
		if c == nil {
			continue
		}
		call := c.oneCall("T-eq", "k.Set"+row.flag)
		if call == nil {
			continue
		}
		want := "types." + row.flag + "{}"
		if row.val {
			want = "types." + row.flag + "{Paused:true}"
		}
		c.teq("T-eq", "Set"+row.flag+".arg", c.args(call)[1], want, p.instrPos(call))
		c.mustPass("G-mpt", "Set"+row.flag, []ssa.Instruction{call}, c.successReturns())
		// write set is the singleton own flag
		var ws []string
		for _, e := range p.closure(c.fn) {
			if e.Kind == "W" || e.Kind == "D" {
				ws = append(ws, e.Kind+" "+e.Region)
			}
		}
		r.check(len(ws) == 1 && ws[0] == "W "+row.flag+"/value/", "F-set", "F-set/"+row.h+"/singleton", c.pos(), "writes only its own flag", fmt.Sprintf("%s writes %v", row.h, ws))
	}
	// setter stores what it is given under the flag's key
	for _, flag := range []string{flagBM, flagSR} {
		fn := p.Func("keeper.Keeper.Set" + flag)
		c := p.fc(r, fn, "Set"+flag, nil)
		if c == nil {
			continue
		}
		for _, e := range p.own(fn) {
			if e.Kind == "W" {
				c.teq("T-eq", "key", e.Key.String(), fmt.Sprintf("[]byte(%q)", flag+"/value/"), p.instrPos(e.In))
				c.teq("T-eq", "value", e.Val.String(), "k.cdc.MustMarshal(&p2)", p.instrPos(e.In))
			}
		}
	}
}

// ---------------------------------------------------------------------------
// C13

func init() { register("C13", "other", runC13) }

func runC13(p *Prog, r *Report, tier string) {
	r.Rule = "exact guard relations (G-cut, G-fail, G-exact) of enable/disable/update/genesis; F-writers of attesters and threshold; GetAllAttesters contract"
	r.Explanation = "Decided: DisableAttester deletes only when the attester exists, n != 1, the threshold exists and t < n (n = number of entries under the attester prefix as returned by GetAllAttesters); " +
		"UpdateSignatureThreshold stores a only when a != 0, a != current and not (n < a); EnableAttester stores only a non-empty key not yet present; InitGenesis refuses a zero threshold (panic) and defaults to 1; " +
		"no other function writes either region; no undocumented rejection exists in the three handlers. " +
		"Induction (argued from exactly these relations, not executed): from 1 <= t <= n, disable requires n >= 2 and n > t so n-1 >= t >= 1; update requires 1 <= a <= n; enable gives n+1 >= t; rejected transactions change nothing (C10/C15 fail arms)."
	r.Assumptions = []string{"go/ssa faithfully represents the module code", "store iteration returns every entry under the prefix exactly once", "attester-manager authorisation is C10"}
	r.Trusted = r.Assumptions

	const attReg = "Attester/value/"
	const thrReg = "SignatureThreshold/value/"
	foundGetterContract(p, r, "GetAttester", attReg, "types.AttesterKey([]byte(p2))", "types.Attester{}")
	foundGetterContract(p, r, "GetSignatureThreshold", thrReg, fmt.Sprintf("[]byte(%q)", thrReg), "types.SignatureThreshold{}")
	getAllContract(p, r, "GetAllAttesters", attReg, "types.Attester{}")

	role := A("(k.GetAttesterManager(ctx) == p2.From)")
	notRole := Atom{Key: role.Key, Pol: false}
	allN := "len(k.GetAllAttesters(ctx))"

	if c := p.fc(r, handlerFn(p, "DisableAttester"), "DisableAttester", nil); c != nil {
		del := c.calls("k.DeleteAttester")
		targets := append(c.instrs(del), c.successReturns()...)
		atoms := map[string]Atom{
			"non-empty-key":     A("!(0 == len(ethcommon.FromHex(p2.Attester)))"),
			"attester-found":    A("k.GetAttester(ctx,p2.Attester)#1"),
			"not-last-attester": A("!(1 == " + allN + ")"),
			"threshold-found":   A("k.GetSignatureThreshold(ctx)#1"),
			"threshold<n":       A("(k.GetSignatureThreshold(ctx)#0.Amount < uint32(" + allN + "))"),
		}
		var rejects []Atom
		rejects = append(rejects, notRole)
		for name, a := range atoms {
			c.requireCut("G-cut", name, []Atom{a}, targets)
			c.requireFailArm("G-fail", name, []Atom{a}, true)
			rejects = append(rejects, Atom{Key: a.Key, Pol: !a.Pol})
		}
		c.exact("G-exact", rejects)
		if len(del) == 1 {
			c.teq("T-eq", "DeleteAttester.arg", c.args(del[0])[1], "p2.Attester", p.instrPos(del[0]))
		} else {
			r.fail("T-eq", "T-eq/DisableAttester/delete-site", c.pos(), fmt.Sprintf("%d DeleteAttester calls", len(del)))
		}
	}
	if c := p.fc(r, handlerFn(p, "UpdateSignatureThreshold"), "UpdateSignatureThreshold", nil); c != nil {
		set := c.calls("k.SetSignatureThreshold")
		targets := append(c.instrs(set), c.successReturns()...)
		atoms := map[string]Atom{
			"amount!=0":       A("!(0 == p2.Amount)"),
			"amount!=current": A("!(k.GetSignatureThreshold(ctx)#0.Amount == p2.Amount)"),
			"amount<=n":       A("!(uint32(" + allN + ") < p2.Amount)"),
		}
		rejects := []Atom{notRole}
		for name, a := range atoms {
			c.requireCut("G-cut", name, []Atom{a}, targets)
			c.requireFailArm("G-fail", name, []Atom{a}, true)
			rejects = append(rejects, Atom{Key: a.Key, Pol: !a.Pol})
		}
		c.exact("G-exact", rejects)
		if len(set) == 1 {
			c.teq("T-eq", "SetSignatureThreshold.arg", c.args(set[0])[1], "types.SignatureThreshold{Amount:p2.Amount}", p.instrPos(set[0]))
		} else {
			r.fail("T-eq", "T-eq/UpdateSignatureThreshold/set-site", c.pos(), fmt.Sprintf("%d SetSignatureThreshold calls", len(set)))
		}
	}
	if c := p.fc(r, handlerFn(p, "EnableAttester"), "EnableAttester", nil); c != nil {
		set := c.calls("k.SetAttester")
		targets := append(c.instrs(set), c.successReturns()...)
		atoms := map[string]Atom{
			"non-empty-key": A("!(0 == len(ethcommon.FromHex(p2.Attester)))"),
			"not-found":     A("!k.GetAttester(ctx,p2.Attester)#1"),
		}
		rejects := []Atom{notRole}
		for name, a := range atoms {
			c.requireCut("G-cut", name, []Atom{a}, targets)
			c.requireFailArm("G-fail", name, []Atom{a}, true)
			rejects = append(rejects, Atom{Key: a.Key, Pol: !a.Pol})
		}
		c.exact("G-exact", rejects)
		if len(set) == 1 {
			c.teq("T-eq", "SetAttester.arg", c.args(set[0])[1], "types.Attester{Attester:p2.Attester}", p.instrPos(set[0]))
		}
	}
	// genesis: threshold != 0 or panic; default 1
	if c := p.fc(r, p.Func("cctp.InitGenesis"), "InitGenesis", nil); c != nil {
		flow := optionalInit(c, "SignatureThreshold", "types.SignatureThreshold{Amount:1}")
		r.check(flow.hasDefault && flow.given != nil, "T-eq", "T-eq/InitGenesis/threshold-sites", c.pos(), "the genesis threshold stored is the given one or the default 1", "genesis threshold flow not recognised: "+flow.why)
		if flow.hasDefault {
			r.ok("T-eq", "T-eq/InitGenesis/threshold-default", c.pos(), "default threshold is 1")
		}
		if flow.given != nil {
			// what reaches the store is non-zero: the given threshold was tested, or the value about
			// to be stored was, or the field is absent (then the default, 1, is what is stored)
			g := []Atom{A("!(0 == p2.SignatureThreshold.Amount)")}
			target := flow.given
			if flow.set != nil && ssa.Instruction(flow.set) != flow.given || flow.viaHelper {
				// one setter call fed by a selected value: the store itself is the target
				target = flow.set
				g = append(g, A("(nil == p2.SignatureThreshold)"))
				if a := c.args(flow.set); len(a) == 2 {
					g = append(g, A("!(0 == "+a[1]+".Amount)"))
				}
			}
			c.requireCut("G-cut", "genesis-threshold!=0", g, []ssa.Instruction{target})
		}
		// no other value is ever stored
		for _, s := range c.calls("k.SetSignatureThreshold") {
			if s != flow.set {
				if arg := c.args(s)[1]; arg != "types.SignatureThreshold{Amount:1}" {
					r.fail("T-eq", "T-eq/InitGenesis/threshold-value/"+arg, p.instrPos(s), "unexpected genesis threshold value "+arg)
				}
			}
		}
	}
	const S = "(keeper.Keeper)."
	const H = "(keeper.msgServer)."
	writersRule(p, r, attReg, []string{"W:" + S + "SetAttester", "D:" + S + "DeleteAttester"}, map[string][]string{
		"W:" + S + "SetAttester": {H + "EnableAttester", "cctp.InitGenesis"}, "D:" + S + "DeleteAttester": {H + "DisableAttester"}})
	writersRule(p, r, thrReg, []string{"W:" + S + "SetSignatureThreshold"}, map[string][]string{
		"W:" + S + "SetSignatureThreshold": {H + "UpdateSignatureThreshold", "cctp.InitGenesis"}})
	// K-agree attesters: Get / Set / Delete derive the same key
	kAgree(p, r, "attesters", attReg, map[string]string{
		"GetAttester":    "R types.AttesterKey([]byte(p2))",
		"SetAttester":    "W types.AttesterKey([]byte(p2.Attester))",
		"DeleteAttester": "D types.AttesterKey([]byte(p2))",
	})
}

// kAgree: each accessor touches `region` exactly once with the given kind and key term.
func kAgree(p *Prog, r *Report, coll, region string, want map[string]string) {
	for acc, w := range want {
		fn := p.Func("keeper.Keeper." + acc)
		if fn == nil {
			r.fail("K-agree", "K-agree/"+coll+"/"+acc, "", "accessor not found")
			continue
		}
		var got []string
		pos := p.pos(fn.Pos())
		for _, e := range p.own(fn) {
			if e.Region == region && (e.Kind == "R" || e.Kind == "W" || e.Kind == "D") {
				got = append(got, e.Kind+" "+e.Key.String())
				pos = p.instrPos(e.In)
			}
		}
		r.check(len(got) == 1 && got[0] == w, "K-agree", "K-agree/"+coll+"/"+acc, pos, acc+" uses "+w,
			fmt.Sprintf("%s accesses %s as %v, expected %s: getter/setter/deleter keys no longer agree", acc, region, got, w))
	}
}

// getAllContract: the list getter iterates the whole region (nil,nil) and
// appends the decoded value of every entry, in iterator order.
func getAllContract(p *Prog, r *Report, getter, region, zero string) {
	fn := p.Func("keeper.Keeper." + getter)
	c := p.fc(r, fn, getter, [][2]string{{"IT", "(prefix.Store).Iterator(" + prefixStore(region) + ",nil,nil)"}})
	if c == nil {
		return
	}
	var effs []string
	for _, e := range p.closure(fn) {
		switch e.Kind {
		case "R", "ITER", "PAGE", "W", "D", "LEDGER", "EVENT":
			effs = append(effs, e.Kind+" "+e.Region)
		}
	}
	r.check(len(effs) == 1 && effs[0] == "ITER "+region, "getter-contract", "getter-contract/"+getter+"/region", c.pos(),
		"iterates exactly "+region, fmt.Sprintf("%s effects: %v", getter, effs))
	want := "phi(append(@,[decode(IT.Value())])|nil)"
	n := 0
	for _, vr := range c.virtualReturns() {
		if len(vr.vals) != 1 || vr.at.Block().Comment == "recover" {
			continue
		}
		n++
		c.teq("getter-contract", "list", vr.vals[0], want, p.instrPos(vr.at))
	}
	r.check(n == 1, "getter-contract", "getter-contract/"+getter+"/returns", c.pos(), "one normal return", fmt.Sprintf("%d returns", n))
	// the loop runs while the iterator is valid and advances it
	valid := c.calls("IT.Valid")
	next := c.calls("IT.Next")
	_ = valid
	okLoop := false
	for _, ii := range c.ifs {
		if ii.atom.Key == "IT.Valid()" {
			okLoop = true
		}
	}
	early := c.earlyLoopExits()
	r.check(okLoop && len(next) == 1 && len(early) == 0, "getter-contract", "getter-contract/"+getter+"/loop", c.pos(), "for ; it.Valid(); it.Next(), left only when the iterator is exhausted", fmt.Sprintf("iteration loop shape changed (early exits: %v)", early))
}
