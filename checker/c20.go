package main

import (
	"fmt"
	"go/token"
	"go/types"
	"regexp"
	"sort"
	"strings"

	"golang.org/x/tools/go/ssa"
)

func init() { register("C20", "other", runC20) }

// allowSite: a panic-capable construct the prover cannot discharge on its own, accepted
// for a stated reason, provided the listed guards are established at the site.
type allowSite struct {
	fn       string
	contains string // regular expression over the printed site
	reason   string
	requires []string // each entry: alternatives separated by "|" ("!" prefix = established on the false side); one must hold at the site
}

var c20Allow = []allowSite{
	// attestation[i*65+a : i*65+b] with 0 <= a <= b <= 65, i a counter from a non-negative start
	{"keeper.VerifyAttestationSignatures", `^p1\[(\(#i\d+ \* 65\)|\(\(#i\d+ \* 65\) \+ ([0-9]|[1-5][0-9]|6[0-5])\)):\(\(#i\d+ \* 65\) \+ ([0-9]|[1-5][0-9]|6[0-5])\)\]$`,
		"needs len(attestation) >= 65*t and i < t without uint32 wrap-around; both tests are established here, and t <= number of attesters (C13), so 65*t cannot wrap below ~66 million attesters",
		[]string{"((p3 * 65) == uint32(len(p1)))|!(uint32(len(p1)) < (p3 * 65))", "(#i0 < p3)|(#i1 < p3)"}},
}

// math.Int methods that are safe on the zero value (nil inner *big.Int), checked in cosmossdk.io/math v1.3.0
var intNilSafe = map[string]bool{"IsNil": true, "BigInt": true, "Marshal": true, "MarshalTo": true, "MarshalJSON": true, "MarshalAmino": true, "Size": true}

// struct types whose math.Int field is only ever marshalled (store value / typed event): Marshal and MarshalJSON are nil-safe
var intMarshalOnly = map[string]string{
	"types.PerMessageBurnLimit":    "stored with cdc.MustMarshal (Int.Marshal is nil-safe)",
	"types.SetBurnLimitPerMessage": "emitted as a typed event (Int.MarshalJSON is nil-safe)",
}

// splitAlts splits "a|b" alternatives at top level (atoms contain "|" inside phi(...)).
func splitAlts(s string) []string {
	var out []string
	depth, start := 0, 0
	for i := 0; i < len(s); i++ {
		switch s[i] {
		case '(', '[', '{':
			depth++
		case ')', ']', '}':
			depth--
		case '|':
			if depth == 0 {
				out = append(out, s[start:i])
				start = i + 1
			}
		}
	}
	return append(out, s[start:])
}

func established(c *FC, key string, wantTrue bool, at ssa.Instruction) bool {
	for _, ii := range c.p.ifs(c.fn) {
		a := ii.atom
		if a.Key != key {
			if ii.alt == nil || ii.alt.Key != key {
				continue
			}
			a = *ii.alt // a named condition decided by this value
		}
		slot := 0
		if a.Pol != wantTrue {
			slot = 1
		}
		if edgeEstablishedAt(c.fn, ii, slot, at) {
			return true
		}
	}
	return false
}

var paramTok = regexp.MustCompile(`\bp(\d+)\b`)

// establishedCtx: established in c.fn itself, or — when c.fn is a NEW helper and key speaks
// about its parameters — at every call site of the helper, with the arguments substituted
// (the guard was left in the caller, or in a sibling helper the caller runs first).
func establishedCtx(c *FC, key string, wantTrue bool, at ssa.Instruction, depth int) bool {
	if established(c, key, wantTrue, at) {
		return true
	}
	if depth >= 3 || !c.p.newHelper(c.fn) || !paramTok.MatchString(key) || len(c.p.funcValueUses(c.fn)) > 0 {
		return false
	}
	callers := c.p.rawCallersOf(c.fn)
	if len(callers) == 0 {
		return false
	}
	for caller, calls := range callers {
		cc := c.p.fc(c.r, caller, funcName(caller), nil)
		if cc == nil {
			return false
		}
		for _, call := range calls {
			k2 := paramTok.ReplaceAllStringFunc(key, func(m string) string {
				var i int
				fmt.Sscanf(m, "p%d", &i)
				if i < len(call.Call.Args) {
					return cc.x.Of(call.Call.Args[i], call).String()
				}
				return m
			})
			if !establishedCtx(cc, k2, wantTrue, call, depth+1) {
				return false
			}
		}
	}
	return true
}

func runC20(p *Prog, r *Report, tier string) {
	r.Rule = "inventory of panic-capable constructs (explicit panic, slice, index, map update, type assertion, integer division, nil dereference of request/result pointers, nil-able math.Int uses, panicking constructors) in every module function reachable from 25 tx + 19 query + codec + CLI-address entry points; each discharged by the in-bounds prover, a dominating guard, a callee contract, or a reasoned allow-list entry"
	r.Explanation = "Decided: in the module functions reachable from the entry points every slice/index expression is proved in bounds from constant sizes, fixed-width Parse fields and dominating length guards (three sites in the attestation verifier are allow-listed with their reason and their guards are checked to be established); " +
		"the four role getters' panics are reachable only when the slot is absent, which cannot happen after InitGenesis because it stores all four roles on every path and nothing deletes them; map updates are on fresh maps; there is no unchecked type assertion or integer division; " +
		"every query dereferences its request only behind `req != nil`; results of (pointer, error) module calls are dereferenced only behind a nil error and the callees return non-nil pointers on success; " +
		"a math.Int read from a request message (absent on the wire = nil) reaches a nil-dereferencing method or constructor only behind `!IsNil`; sdk.NewCoin is called only behind ValidateDenom(denom) == nil and amount > 0; fixed-width binary reads/writes have buffers of the needed width; PubkeyToAddress gets keys with non-nil coordinates. " +
		"Not decided: panics inside dependencies other than through these tabled APIs (codec Must(Un)Marshal on module types is accepted as a class: the store holds what the same codec wrote), and a nil request message handed to a tx handler (the router never does that)."
	r.Assumptions = []string{"go/ssa faithfully represents the module code", "frozen table of panicking dependency APIs (sdk.NewCoin/NewCoins, big.Int.FillBytes, binary.BigEndian.*, crypto.PubkeyToAddress, Must*)", "cosmossdk.io/math v1.3.0 nil-safety of Int.IsNil/BigInt/Marshal*", "crypto.Ecrecover returns 65 bytes on success", "tx handlers are invoked with a non-nil message"}
	r.Trusted = r.Assumptions

	externalAllowObligation(p, r, "P-external", "it may panic on some argument (only the tabled constructors have precondition rules)")
	initOnlyObligation(p, r, "P-external")
	entries := p.c20Entries()
	for name, fn := range entries {
		if fn == nil {
			r.fail("anchor", "anchor/"+name, "", "entry point not found")
		}
	}
	r.floor("entry-points", len(entries), 25+19+8)
	reach := p.reachableFrom(entries)
	r.floor("reachable-functions", len(reach), 80)
	plens := p.parseFieldLens()
	r.floor("parse-field-widths", len(plens), 6)
	// the widths of open-ended tail fields rest on the exact-length contracts of the Parse functions
	parseContracts(p, r)

	loopObligations(p, r, reach)
	sites := p.panicSites(reach)
	// the command-line client: what a command does with its address arguments before (or
	// instead of) handing them to parseAddress — slicing, indexing or converting a string or
	// byte value anywhere in the cli package (the argument vector itself is sized by cobra)
	cliOnly := map[*ssa.Function]bool{}
	for _, fn := range p.Funcs {
		top := fn
		for top.Parent() != nil {
			top = top.Parent()
		}
		if top.Pkg != nil && top.Pkg.Pkg.Path() == modulePkgs[3] && !reach[fn] {
			cliOnly[fn] = true
		}
	}
	nCli := 0
	for _, s := range p.panicSites(cliOnly) {
		var base ssa.Value
		switch in := s.In.(type) {
		case *ssa.Slice:
			base = in.X
		case *ssa.IndexAddr:
			base = in.X
		case *ssa.Index:
			base = in.X
		case *ssa.SliceToArrayPointer:
			base = in.X
		default:
			continue
		}
		T := base.Type().Underlying()
		if ptr, ok := T.(*types.Pointer); ok {
			T = ptr.Elem().Underlying()
		}
		isText := false
		switch u := T.(type) {
		case *types.Basic:
			isText = u.Info()&types.IsString != 0
		case *types.Slice:
			if b, ok := u.Elem().Underlying().(*types.Basic); ok && b.Kind() == types.Byte {
				isText = true
			}
		case *types.Array:
			if b, ok := u.Elem().Underlying().(*types.Basic); ok && b.Kind() == types.Byte {
				isText = true
			}
		}
		if !isText {
			continue
		}
		nCli++
		sites = append(sites, s)
	}
	r.Extra["cli_text_sites_outside_parseAddress"] = nCli
	ctx := map[*ssa.Function]*FC{}
	fc := func(fn *ssa.Function) *FC {
		if c, ok := ctx[fn]; ok {
			return c
		}
		c := p.fc(r, fn, funcName(fn), nil)
		ctx[fn] = c
		return c
	}
	counts := map[string]int{}
	seenKey := map[string]int{}
	for _, s := range sites {
		counts[s.Kind]++
		c := fc(s.Fn)
		desc := s.Desc
		if len(desc) > 90 {
			desc = desc[:90] + "…"
		}
		key := fmt.Sprintf("P-site/%s/%s/%s", s.Kind, funcName(s.Fn), desc)
		seenKey[key]++
		if seenKey[key] > 1 {
			key += fmt.Sprintf("#%d", seenKey[key])
		}
		pos := p.instrPos(s.In)
		switch s.Kind {
		case "panic":
			dischargeRolePanic(p, r, c, s, key)
		case "slice":
			ok, how := c.proveSlice(s.In.(*ssa.Slice), plens)
			recordSite(p, r, c, s, key, pos, ok, how)
		case "index":
			var ok bool
			var how string
			switch in := s.In.(type) {
			case *ssa.IndexAddr:
				ok, how = c.proveIndex(in.X, in.Index, in, plens)
			case *ssa.Index:
				ok, how = c.proveIndex(in.X, in.Index, in, plens)
			}
			recordSite(p, r, c, s, key, pos, ok, how)
		case "makeslice":
			ok, how := c.proveNonNegative(s.In.(*ssa.MakeSlice).Len, s.In, plens)
			if ms := s.In.(*ssa.MakeSlice); ok && ms.Cap != ms.Len {
				if _, capConst := constInt(ms.Cap); !capConst && c.term(ms.Cap, ms) != c.term(ms.Len, ms) {
					// len <= cap must hold too: only cap = len + (something non-negative) is recognised
					ok2 := false
					if bo, isAdd := ms.Cap.(*ssa.BinOp); isAdd && bo.Op == token.ADD {
						for _, pair := range [][2]ssa.Value{{bo.X, bo.Y}, {bo.Y, bo.X}} {
							if c.term(pair[0], ms) == c.term(ms.Len, ms) {
								if nn, _ := c.proveNonNegative(pair[1], ms, plens); nn {
									ok2 = true
								}
							}
						}
					}
					if !ok2 {
						ok, how = false, "capacity is not provably >= length"
					}
				}
			}
			recordSite(p, r, c, s, key, pos, ok, how)
		case "toarray":
			in := s.In.(*ssa.SliceToArrayPointer)
			n := int(in.Type().(*types.Pointer).Elem().Underlying().(*types.Array).Len())
			base := c.lenOf(in.X, in, plens)
			recordSite(p, r, c, s, key, pos, base.min >= n, fmt.Sprintf("conversion to [%d]T needs len >= %d; known: len >= %d (%s)", n, n, base.min, base.why))
		case "shift":
			in := s.In.(*ssa.BinOp)
			ok, how := c.proveNonNegative(in.Y, in, plens)
			recordSite(p, r, c, s, key, pos, ok, "shift count must not be negative: "+how)
		case "nilcall":
			r.fail("P-site", key, pos, "call of a function value that may be nil: "+s.Desc)
		case "nilderef":
			ok, how := c.ptrNonNil(s.In.Operands(nil)[0], s.In, 0)
			recordSite(p, r, c, s, key, pos, ok, how)
		case "mapupdate":
			_, fresh := s.In.(*ssa.MapUpdate).Map.(*ssa.MakeMap)
			r.check(fresh, "P-site", key, pos, "update of a freshly made map", "write to a map that may be nil")
		case "assert":
			r.fail("P-site", key, pos, "type assertion without comma-ok can panic: "+s.Desc)
		case "div":
			in := s.In.(*ssa.BinOp)
			if k, ok := constInt(in.Y); ok && k != 0 {
				r.ok("P-site", key, pos, "division by a non-zero constant")
			} else {
				r.fail("P-site", key, pos, "integer division by a value that may be zero: "+s.Desc)
			}
		}
	}
	r.Extra["sites_by_kind"] = counts
	r.floor("panic-capable-sites", len(sites), 150)

	// ---- nil dereference of query requests
	nq := 0
	for _, q := range p.queryHandlers() {
		c := fc(q.Fn)
		if len(q.Fn.Params) < 3 {
			continue
		}
		req := q.Fn.Params[2]
		var derefs []ssa.Instruction
		if refs := req.Referrers(); refs != nil {
			for _, u := range *refs {
				switch u := u.(type) {
				case *ssa.FieldAddr:
					derefs = append(derefs, u)
				case *ssa.UnOp:
					if u.Op == token.MUL {
						derefs = append(derefs, u)
					}
				}
			}
		}
		if len(derefs) == 0 {
			r.ok("P-deref", "P-deref/query/"+q.Name, p.pos(q.Fn.Pos()), "request pointer is never dereferenced")
			continue
		}
		nq++
		bad := ""
		for _, d := range derefs {
			if !established(c, "(nil == p2)", false, d) {
				bad = p.instrPos(d)
			}
		}
		r.check(bad == "", "P-deref", "P-deref/query/"+q.Name, p.pos(q.Fn.Pos()), fmt.Sprintf("%d request dereferences, all behind req != nil", len(derefs)),
			"query "+q.Name+" dereferences its request at "+bad+" without a dominating `req != nil`")
	}
	r.floor("queries-dereferencing-request", nq, 8)

	// ---- dereference of (pointer, error) results of module calls
	nd := 0
	for fn := range reach {
		c := fc(fn)
		for _, b := range fn.Blocks {
			for _, in := range b.Instrs {
				ex, ok := in.(*ssa.Extract)
				if !ok || ex.Index != 0 {
					continue
				}
				call, ok := ex.Tuple.(*ssa.Call)
				if !ok {
					continue
				}
				tup, ok := call.Type().(*types.Tuple)
				if !ok || tup.Len() != 2 || !isErrorType(tup.At(1).Type()) {
					continue
				}
				if _, isPtr := tup.At(0).Type().Underlying().(*types.Pointer); !isPtr {
					continue
				}
				callee := call.Call.StaticCallee()
				if callee == nil || !p.inModuleCode(callee) {
					continue
				}
				var derefs []ssa.Instruction
				if refs := ex.Referrers(); refs != nil {
					for _, u := range *refs {
						switch u := u.(type) {
						case *ssa.FieldAddr:
							derefs = append(derefs, u)
						case *ssa.UnOp:
							if u.Op == token.MUL {
								derefs = append(derefs, u)
							}
						}
					}
				}
				if len(derefs) == 0 {
					continue
				}
				nd++
				callTerm := c.x.Of(call, call).String()
				okKey := "(" + callTerm + "#1 == nil)"
				okKey2 := "(nil == " + callTerm + "#1)"
				bad := ""
				for _, d := range derefs {
					if !established(c, okKey, true, d) && !established(c, okKey2, true, d) {
						bad = p.instrPos(d)
					}
				}
				short := funcName(fn) + "/" + funcName(callee)
				r.check(bad == "", "P-deref", "P-deref/result/"+short, p.instrPos(call), "result of "+funcName(callee)+" dereferenced only behind a nil error",
					"result pointer of "+funcName(callee)+" is dereferenced at "+bad+" without a dominating nil-error test")
				// callee contract: success-capable returns carry a non-nil pointer
				cc := fc(callee)
				nonNil := true
				why := ""
				for _, ret := range allReturns(callee) {
					if p.exitKind(cc.x, ret) == "error" {
						continue
					}
					switch v := ret.Results[0].(type) {
					case *ssa.Alloc:
					case *ssa.Parameter:
						// receiver returned: every in-module call site must pass a fresh allocation
						for _, cs := range p.rawCallersOf(callee) {
							for _, site := range cs {
								if _, ok := site.Call.Args[0].(*ssa.Alloc); !ok {
									nonNil, why = false, "call site at "+p.instrPos(site)+" passes a receiver that is not a fresh allocation"
								}
							}
						}
						_ = v
					default:
						nonNil, why = false, "returns "+cc.x.Of(v, ret).String()+" with a possibly nil error at "+p.instrPos(ret)
					}
				}
				r.check(nonNil, "P-deref", "P-deref/contract/"+short, p.pos(callee.Pos()), funcName(callee)+" returns a non-nil pointer whenever its error may be nil", why)
			}
		}
	}
	r.floor("result-pointer-dereferences", nd, 5)

	// ---- math.Int typestate
	checkIntTypestate(p, r, reach, fc)

	// ---- panicking constructors
	checkCtors(p, r, reach, fc, plens)

	if tier == "thorough" {
		bceCrossRef(p, r, sites, reach)
	}

	// ---- positive controls
	if p.ControlSSA == nil {
		r.fail("positive-control", "positive-control/fixture", "", "positive-control fixture not loaded")
		return
	}
	creach := map[*ssa.Function]bool{}
	for _, fn := range p.ControlFuncs {
		creach[fn] = true
	}
	gotSlice, gotPanic := false, false
	for _, s := range p.panicSites(creach) {
		c := &FC{p: p, r: r, fn: s.Fn, x: p.tx(s.Fn), name: funcName(s.Fn)}
		switch s.Kind {
		case "slice":
			if ok, _ := c.proveSlice(s.In.(*ssa.Slice), plens); !ok && strings.HasSuffix(funcName(s.Fn), ".Head") {
				gotSlice = true
			}
		case "panic":
			if strings.HasSuffix(funcName(s.Fn), ".Boom") {
				gotPanic = true
			}
		}
	}
	r.check(gotSlice, "positive-control", "positive-control/P-site-slice", "", "the prover refuses the fixture's unguarded b[:2]", "the in-bounds prover accepts the fixture's unguarded slice: it would accept anything")
	r.check(gotPanic, "positive-control", "positive-control/P-site-panic", "", "the inventory finds the fixture's panic", "the inventory does not see the fixture's panic")
}

func recordSite(p *Prog, r *Report, c *FC, s panicSite, key, pos string, ok bool, how string) {
	if ok {
		r.ok("P-site", key, pos, how)
		return
	}
	for _, a := range c20Allow {
		if m := regexp.MustCompile(a.contains).FindStringSubmatch(s.Desc); a.fn == funcName(s.Fn) && m != nil {
			missing := ""
			if len(m) >= 4 {
				// the offsets of the two bounds: low <= high
				lo, hi := 0, 0
				fmt.Sscan("0"+m[2], &lo)
				fmt.Sscan("0"+m[3], &hi)
				if lo > hi {
					r.fail("P-site-allowlisted", key, pos, fmt.Sprintf("slice bounds [i*65+%d : i*65+%d] have low > high: always panics", lo, hi))
					return
				}
			}
			for _, req := range a.requires {
				okAny := false
				for _, alt := range splitAlts(req) {
					want := true
					if strings.HasPrefix(alt, "!") {
						want, alt = false, alt[1:]
					}
					if established(c, alt, want, s.In) {
						okAny = true
					}
				}
				if !okAny {
					missing = req
				}
			}
			if missing == "" {
				r.ok("P-site-allowlisted", key, pos, "allow-listed: "+a.reason)
			} else {
				r.fail("P-site-allowlisted", key, pos, "allow-listed site has lost its guard "+missing+" ("+a.reason+")")
			}
			return
		}
	}
	r.fail("P-site", key, pos, fmt.Sprintf("%s in %s may be out of range: %s (%s)", s.Kind, funcName(s.Fn), s.Desc, how))
}

// proveNonNegative: an integer expression that cannot be negative (a slice length for make).
func (c *FC) proveNonNegative(v ssa.Value, at ssa.Instruction, plens map[string]int) (bool, string) {
	if k, ok := constInt(v); ok {
		return k >= 0, "constant"
	}
	switch v := v.(type) {
	case *ssa.Call:
		if bi, ok := v.Call.Value.(*ssa.Builtin); ok && (bi.Name() == "len" || bi.Name() == "cap") {
			return true, "a length"
		}
	case *ssa.Convert:
		if b, ok := v.X.Type().Underlying().(*types.Basic); ok && b.Info()&types.IsUnsigned != 0 {
			// uintN -> int can wrap only for 64-bit values; the module's sizes are uint32/len
			if b.Kind() != types.Uint64 && b.Kind() != types.Uint && b.Kind() != types.Uintptr {
				return true, "conversion of a narrow unsigned value"
			}
		}
		return c.proveNonNegative(v.X, at, plens)
	case *ssa.BinOp:
		switch v.Op {
		case token.ADD, token.MUL:
			a, _ := c.proveNonNegative(v.X, at, plens)
			b, _ := c.proveNonNegative(v.Y, at, plens)
			return a && b, "sum/product of non-negative terms"
		case token.SUB:
			// C - len(y) with len(y) <= C
			if k, ok := constInt(v.X); ok {
				if call, ok := v.Y.(*ssa.Call); ok {
					if bi, ok := call.Call.Value.(*ssa.Builtin); ok && bi.Name() == "len" {
						y := c.lenOf(call.Call.Args[0], at, plens)
						if y.max >= 0 && y.max <= k {
							return true, fmt.Sprintf("%d - len(y) with len(y) <= %d", k, y.max)
						}
					}
				}
			}
		}
	}
	return false, "length not provably non-negative: " + c.term(v, at)
}

// dischargeRolePanic: the panic of a role getter is reachable only when its slot is absent,
// InitGenesis stores the slot on every path, and nothing deletes it.
func dischargeRolePanic(p *Prog, r *Report, c *FC, s panicSite, key string) {
	pos := p.instrPos(s.In)
	getters := map[string][2]string{
		"(keeper.Keeper).GetOwner":           {"raw:owner", "k.SetOwner"},
		"(keeper.Keeper).GetAttesterManager": {"raw:attester-manager", "k.SetAttesterManager"},
		"(keeper.Keeper).GetPauser":          {"raw:pauser", "k.SetPauser"},
		"(keeper.Keeper).GetTokenController": {"raw:token-controller", "k.SetTokenController"},
	}
	// the getter itself, or a NEW helper every caller of which is a role getter (the slot key
	// is then the helper's parameter and the region is resolved per caller)
	var rows [][2]string
	var owners []*ssa.Function
	if row, ok := getters[funcName(s.Fn)]; ok {
		rows, owners = append(rows, row), append(owners, s.Fn)
	} else if p.newHelper(s.Fn) {
		for caller := range p.callersOf(s.Fn) {
			row, ok := getters[funcName(caller)]
			if !ok {
				rows = nil
				break
			}
			rows, owners = append(rows, row), append(owners, caller)
		}
	}
	if len(rows) == 0 {
		r.fail("P-site", key, pos, "explicit panic reachable from an entry point: "+s.Desc)
		return
	}
	for i, row := range rows {
		dischargeRolePanicRow(p, r, c, s, key+map[bool]string{true: "", false: "/" + funcName(owners[i])}[owners[i] == s.Fn], row, owners[i])
	}
}

func dischargeRolePanicRow(p *Prog, r *Report, c *FC, s panicSite, key string, row [2]string, owner *ssa.Function) {
	pos := p.instrPos(s.In)
	region := row[0]
	// only when absent: the single store read of the panicking function, which (seen from the getter) reads the role's slot
	var get *Effect
	nR := 0
	for _, e := range p.ownInner(s.Fn) {
		if e.Kind == "R" {
			e := e
			get = &e
			nR++
		}
	}
	ownReads := 0
	for _, e := range p.closure(owner) {
		switch e.Kind {
		case "R":
			if e.Region == region {
				ownReads++
			} else {
				ownReads = -100
			}
		case "ITER", "PAGE", "ESCAPE":
			ownReads = -100
		}
	}
	absentOnly := false
	if get != nil && nR == 1 && ownReads == 1 {
		site := get.In
		if get.Inner != nil {
			site = get.Inner
		}
		t := c.termAt(site.(ssa.Value), site).String()
		absentOnly = established(c, "(nil == "+t+")", true, s.In) || established(c, "("+t+" == nil)", true, s.In)
	}
	// no deleter
	nDel := 0
	for _, fn := range p.Funcs {
		for _, e := range p.own(fn) {
			if e.Kind == "D" && e.Region == region {
				nDel++
			}
		}
	}
	// written by InitGenesis on every path
	initOK := false
	if initFn := p.Func("cctp.InitGenesis"); initFn != nil {
		if ic := p.fc(r, initFn, "InitGenesis", nil); ic != nil {
			via := ic.viaAnchors(ic.instrs(ic.calls(row[1])))
			fi := p.info(initFn)
			initOK = len(via) > 0
			for _, ret := range allReturns(initFn) {
				if fi.entryReachesAvoiding(ret, via) {
					initOK = false
				}
			}
		}
	}
	r.check(absentOnly && nDel == 0 && initOK, "P-site", key, pos,
		"panics only when "+region+" is absent; InitGenesis stores it on every path and nothing deletes it",
		fmt.Sprintf("role-getter panic not discharged: only-when-absent=%v deleters=%d init-writes-unconditionally=%v", absentOnly, nDel, initOK))
}

// ---------------------------------------------------------------------------
// math.Int typestate

func isSDKInt(T types.Type) bool { return isNamed(T, "cosmossdk.io/math", "Int") }

func checkIntTypestate(p *Prog, r *Report, reach map[*ssa.Function]bool, fc func(*ssa.Function) *FC) {
	type src struct {
		fn   *ssa.Function
		v    ssa.Value
		what string
	}
	var work []src
	seenParam := map[string]bool{}
	// sources: math.Int fields of request messages read in tx handlers
	for _, h := range p.txHandlers() {
		if h.Fn == nil || len(h.Fn.Params) < 3 {
			continue
		}
		// the request pointer, followed into the module functions it is handed to
		type mp struct {
			fn *ssa.Function
			v  ssa.Value
		}
		ptrs := []mp{{h.Fn, h.Fn.Params[2]}}
		seenPtr := map[ssa.Value]bool{}
		for len(ptrs) > 0 {
			cur := ptrs[0]
			ptrs = ptrs[1:]
			if seenPtr[cur.v] {
				continue
			}
			seenPtr[cur.v] = true
			refs := cur.v.Referrers()
			if refs == nil {
				continue
			}
			for _, u := range *refs {
				switch u := u.(type) {
				case *ssa.FieldAddr:
					if pt, ok := u.Type().(*types.Pointer); !ok || !isSDKInt(pt.Elem()) {
						continue
					}
					if frefs := u.Referrers(); frefs != nil {
						for _, fu := range *frefs {
							if ld, ok := fu.(*ssa.UnOp); ok && ld.Op == token.MUL {
								work = append(work, src{cur.fn, ld, "msg." + fieldName(u) + " of " + h.Name})
							}
						}
					}
				case *ssa.UnOp:
					if u.Op == token.MUL && structHasSDKInt(u.Type()) {
						r.fail("P-intnil", fmt.Sprintf("P-intnil/%s/whole-copy-of-request", funcName(cur.fn)), p.instrPos(u),
							"the request (whose amount may be absent = nil math.Int) is copied as a whole: uses of the copy's amount cannot be followed to an IsNil test")
					}
				case *ssa.Call:
					if callee := u.Call.StaticCallee(); callee != nil && p.inModuleCode(callee) && !u.Call.IsInvoke() {
						for i, a := range u.Call.Args {
							if a == cur.v && i < len(callee.Params) {
								ptrs = append(ptrs, mp{callee, callee.Params[i]})
							}
						}
					}
				case *ssa.Phi:
					ptrs = append(ptrs, mp{cur.fn, u})
				}
			}
		}
	}
	r.floor("nilable-int-sources", len(work), 3)
	nUses := 0
	for len(work) > 0 {
		s := work[0]
		work = work[1:]
		c := fc(s.fn)
		refs := s.v.Referrers()
		if refs == nil {
			continue
		}
		vt := c.x.Of(s.v, nil).String()
		guarded := func(at ssa.Instruction) bool {
			return established(c, "(sdkmath.Int).IsNil("+vt+")", false, at)
		}
		for _, u := range *refs {
			nUses++
			key := fmt.Sprintf("P-intnil/%s/%s", funcName(s.fn), s.what)
			pos := p.instrPos(u)
			switch u := u.(type) {
			case *ssa.Call:
				callee := u.Call.StaticCallee()
				if callee != nil && strings.HasPrefix(funcName(callee), "(sdkmath.Int).") && len(u.Call.Args) > 0 && u.Call.Args[0] == s.v && intNilSafe[callee.Name()] {
					r.ok("P-intnil", key+"/"+callee.Name(), pos, "nil-safe method "+callee.Name())
					continue
				}
				if callee != nil && p.newHelper(callee) && guarded(u) {
					r.ok("P-intnil", key+"/passed-to/"+funcName(callee), pos, "passed to a new helper behind !IsNil")
					continue
				}
				if callee != nil && p.inModuleCode(callee) {
					for i, a := range u.Call.Args {
						if a == s.v && i < len(callee.Params) {
							id := fmt.Sprintf("%s#%d", funcName(callee), i)
							if !seenParam[id] {
								seenParam[id] = true
								work = append(work, src{callee, callee.Params[i], "parameter " + callee.Params[i].Name() + " of " + funcName(callee)})
							}
						}
					}
					r.ok("P-intnil", key+"/passed-to/"+funcName(callee), pos, "passed on to a module function (checked there)")
					continue
				}
				name := callNameOf(c.x, u)
				r.check(guarded(u), "P-intnil", key+"/use/"+name, pos, "use by "+name+" is behind !IsNil",
					fmt.Sprintf("%s (absent on the wire => nil math.Int) reaches %s without a dominating IsNil test: nil dereference", s.what, name))
			case *ssa.Store:
				T := ""
				if fa, ok := u.Addr.(*ssa.FieldAddr); ok {
					T = typeStr(fa.X.Type().Underlying().(*types.Pointer).Elem())
				}
				if why, ok := intMarshalOnly[T]; ok {
					r.ok("P-intnil", key+"/stored-in/"+T, pos, why)
					continue
				}
				r.check(guarded(u), "P-intnil", key+"/stored-in/"+T, pos, "stored into "+T+" behind !IsNil",
					fmt.Sprintf("%s (possibly nil math.Int) is stored into %s without a dominating IsNil test", s.what, T))
			case *ssa.DebugRef:
			default:
				r.check(guarded(u), "P-intnil", key+fmt.Sprintf("/use/%T", u), pos, "use behind !IsNil",
					fmt.Sprintf("%s (possibly nil math.Int) is used by %T without a dominating IsNil test", s.what, u))
			}
		}
	}
	r.floor("nilable-int-uses", nUses, 8)
}

// ---------------------------------------------------------------------------
// panicking constructors of dependencies

func checkCtors(p *Prog, r *Report, reach map[*ssa.Function]bool, fc func(*ssa.Function) *FC, plens map[string]int) {
	var fns []*ssa.Function
	for fn := range reach {
		fns = append(fns, fn)
	}
	sort.Slice(fns, func(i, j int) bool { return funcName(fns[i]) < funcName(fns[j]) })
	n := 0
	nMust := 0
	for _, fn := range fns {
		c := fc(fn)
		seen := map[string]int{}
		for _, b := range fn.Blocks {
			for _, in := range b.Instrs {
				call, ok := in.(*ssa.Call)
				if !ok {
					continue
				}
				name := callNameOf(c.x, call)
				pos := p.instrPos(call)
				key := func(what string) string {
					k := fmt.Sprintf("P-ctor/%s/%s", funcName(fn), what)
					seen[k]++
					if seen[k] > 1 {
						k += fmt.Sprintf("#%d", seen[k])
					}
					return k
				}
				args := call.Call.Args
				switch {
				case name == "sdk.NewCoin":
					n++
					d := c.x.Of(args[0], call).String()
					a := c.x.Of(args[1], call).String()
					okD := establishedCtx(c, "(nil == sdk.ValidateDenom("+d+"))", true, call, 0) || establishedCtx(c, "(sdk.ValidateDenom("+d+") == nil)", true, call, 0)
					okA := establishedCtx(c, "(0 <I "+a+")", true, call, 0) || establishedCtx(c, "("+a+" <I 0)", false, call, 0) ||
						regexp.MustCompile(`^sdkmath\.NewInt\(\d+\)$`).MatchString(a)
					r.check(okD, "P-ctor", key("sdk.NewCoin/denom"), pos, "behind ValidateDenom("+d+") == nil", "sdk.NewCoin panics on an invalid denom; "+d+" is not validated on every path to this call")
					r.check(okA, "P-ctor", key("sdk.NewCoin/amount"), pos, "behind amount > 0", "sdk.NewCoin panics on a negative amount; "+a+" is not proven positive here")
				case name == "sdk.NewCoins":
					n++
					okc := true
					for _, t := range c.argTerms(call) {
						if !strings.HasPrefix(t.String(), "sdk.NewCoin(") {
							okc = false
						}
					}
					r.check(okc && len(c.argTerms(call)) == 1, "P-ctor", key("sdk.NewCoins"), pos, "single coin built by a guarded sdk.NewCoin", "sdk.NewCoins panics on invalid or duplicate coins; arguments are not guarded NewCoin results")
				case name == "(*math/big.Int).FillBytes":
					n++
					lf := c.lenOf(args[1], call, plens)
					recv := c.x.Of(args[0], call).String()
					r.check(lf.min >= 32 && strings.HasPrefix(recv, "(sdkmath.Int).BigInt("), "P-ctor", key("FillBytes"), pos, "32-byte buffer for a math.Int (<= 256 bits by type invariant)",
						fmt.Sprintf("FillBytes panics when the value does not fit: buffer len >= %d, receiver %s", lf.min, recv))
				case name == "sdkmath.NewIntFromBigInt":
					n++
					// panics when the value needs more than 256 bits: the argument is SetBytes of at most 32 bytes,
					// or the BigInt() of a math.Int
					okN, why := false, "argument is not SetBytes of a value of at most 32 bytes"
					if sb, ok := args[0].(*ssa.Call); ok {
						if cal := sb.Call.StaticCallee(); cal != nil {
							switch funcName(cal) {
							case "(*math/big.Int).SetBytes":
								lf := c.lenOf(sb.Call.Args[1], sb, plens)
								okN = lf.max >= 0 && lf.max <= 32
								why = fmt.Sprintf("SetBytes of a value whose length is at most %d (need <= 32; %s)", lf.max, lf.why)
							case "(sdkmath.Int).BigInt":
								okN = true
							}
						}
					}
					r.check(okN, "P-ctor", key("NewIntFromBigInt"), pos, "value of at most 256 bits", "math.NewIntFromBigInt panics above 256 bits: "+why)
				case strings.Contains(name, "Endian).AppendUint"):
					// appends: never indexes its argument
				case strings.HasPrefix(name, "(encoding/binary.bigEndian).") || strings.HasPrefix(name, "(encoding/binary.littleEndian)."):
					n++
					w := 4
					if strings.HasSuffix(name, "64") {
						w = 8
					} else if strings.HasSuffix(name, "16") {
						w = 2
					}
					lf := c.lenOf(args[1], call, plens)
					r.check(lf.min >= w, "P-ctor", key(strings.TrimPrefix(name, "(encoding/binary.")), pos, fmt.Sprintf("buffer of at least %d bytes", w),
						fmt.Sprintf("%s panics on a short buffer: len >= %d known, %d needed", name, lf.min, w))
				case name == "ethcrypto.PubkeyToAddress":
					n++
					t := c.argTerms(call)[0]
					_, fields, ok := c.litFields(t)
					okk := ok
					for _, f := range []string{"X", "Y"} {
						v := fields[f]
						if strings.HasPrefix(v, "(*math/big.Int).SetBytes(") {
							continue
						}
						if !established(c, "(nil == "+v+")", false, call) {
							okk = false
						}
					}
					r.check(okk, "P-ctor", key("PubkeyToAddress"), pos, "both coordinates non-nil (fresh SetBytes or behind != nil)", "crypto.PubkeyToAddress slices a nil encoding when a coordinate is nil: "+t.String())
				case strings.HasPrefix(name, "k.cdc.Must"):
					nMust++
				case strings.Contains(name, ".Must") || strings.HasPrefix(name, "Must"):
					r.fail("P-ctor", key(name), pos, "call of a panicking Must* constructor reachable from an entry point: "+name)
				}
			}
		}
	}
	r.ok("P-ctor", "P-ctor/class/cdc.Must(Un)Marshal", "", fmt.Sprintf("%d codec Must(Un)Marshal calls on module types accepted as a class: the store holds what the same codec wrote, and marshalling module types cannot fail", nMust))
	r.floor("panicking-constructor-calls", n, 12)
}

// ptrNonNil: the pointer a dereference goes through cannot be nil — it is an address
// computation, a parameter (the callers' business: request pointers have their own rule), a
// value read from memory or returned by code outside the module (not judged), or the result of
// a module function all of whose returns are such; a phi with a nil edge or a module function
// that can return nil needs a dominating `!= nil` test.
func (c *FC) ptrNonNil(vp *ssa.Value, at ssa.Instruction, depth int) (bool, string) {
	v := *vp
	return c.ptrNonNilV(v, at, depth, map[ssa.Value]bool{})
}

func (c *FC) ptrNonNilV(v ssa.Value, at ssa.Instruction, depth int, seen map[ssa.Value]bool) (bool, string) {
	if seen[v] || depth > 10 {
		return true, ""
	}
	seen[v] = true
	guarded := func() bool {
		t := c.x.Of(v, at).String()
		return established(c, "("+t+" == nil)", false, at) || established(c, "(nil == "+t+")", false, at)
	}
	switch o := v.(type) {
	case *ssa.Const:
		if o.Value == nil {
			return false, "dereference of the nil constant"
		}
	case *ssa.Phi:
		for _, e := range o.Edges {
			if ok, why := c.ptrNonNilV(e, at, depth+1, seen); !ok {
				if guarded() {
					return true, "behind a != nil test"
				}
				return false, why
			}
		}
	case *ssa.Call:
		callee := o.Call.StaticCallee()
		if callee == nil || o.Call.IsInvoke() || !c.p.inModuleCode(callee) || callee.Blocks == nil {
			return true, "result of code outside the module (not judged)"
		}
		if _, isPtr := o.Type().Underlying().(*types.Pointer); !isPtr {
			return true, ""
		}
		cc := c.p.fc(c.r, callee, funcName(callee), nil)
		for _, ret := range allReturns(callee) {
			if len(ret.Results) != 1 {
				continue
			}
			if ok, why := cc.ptrNonNilV(ret.Results[0], ret, depth+1, map[ssa.Value]bool{}); !ok {
				if guarded() {
					return true, "behind a != nil test"
				}
				return false, fmt.Sprintf("%s can return nil (%s) and the result is dereferenced without a nil test", funcName(callee), why)
			}
		}
	case *ssa.ChangeType:
		return c.ptrNonNilV(o.X, at, depth+1, seen)
	case *ssa.Extract:
		call, ok := o.Tuple.(*ssa.Call)
		if !ok {
			return true, ""
		}
		callee := call.Call.StaticCallee()
		if callee == nil || call.Call.IsInvoke() || !c.p.inModuleCode(callee) || callee.Blocks == nil {
			return true, "result of code outside the module (not judged)"
		}
		tup := call.Type().(*types.Tuple)
		if o.Index == 0 && tup.Len() == 2 && isErrorType(tup.At(1).Type()) {
			return true, "(pointer, error) result: P-deref/result rule"
		}
		cc := c.p.fc(c.r, callee, funcName(callee), nil)
		for _, ret := range allReturns(callee) {
			if o.Index >= len(ret.Results) {
				continue
			}
			if ok, why := cc.ptrNonNilV(ret.Results[o.Index], ret, depth+1, map[ssa.Value]bool{}); !ok {
				if guarded() {
					return true, "behind a != nil test"
				}
				return false, fmt.Sprintf("%s can return nil as result %d (%s) and it is dereferenced without a nil test", funcName(callee), o.Index, why)
			}
		}
	}
	return true, "address computation, parameter, loaded value or non-nil by construction"
}

func structHasSDKInt(T types.Type) bool {
	st, ok := T.Underlying().(*types.Struct)
	if !ok {
		return false
	}
	for i := 0; i < st.NumFields(); i++ {
		if isSDKInt(st.Field(i).Type()) || structHasSDKInt(st.Field(i).Type()) {
			return true
		}
	}
	return false
}
