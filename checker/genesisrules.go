package main

import (
	"go/token"
	"fmt"
	"go/types"
	"regexp"
	"sort"
	"strings"

	"golang.org/x/tools/go/ssa"
)

// genesisFieldRegion is the oracle for C17: which store region each
// GenesisState field serialises.
var genesisFieldRegion = map[string]string{
	"Owner":                             "raw:owner",
	"AttesterManager":                   "raw:attester-manager",
	"Pauser":                            "raw:pauser",
	"TokenController":                   "raw:token-controller",
	"AttesterList":                      "Attester/value/",
	"PerMessageBurnLimitList":           "PerMessageBurnLimit/value/",
	"BurningAndMintingPaused":           "BurningAndMintingPaused/value/",
	"SendingAndReceivingMessagesPaused": "SendingAndReceivingMessagesPaused/value/",
	"MaxMessageBodySize":                "MaxMessageBodySize/value/",
	"NextAvailableNonce":                "NextAvailableNonce/value/",
	"SignatureThreshold":                "SignatureThreshold/value/",
	"TokenPairList":                     "TokenPair/value/",
	"UsedNoncesList":                    "UsedNonce/value/",
	"TokenMessengerList":                "RemoteTokenMessenger/value/",
}

// keyed lists: duplicate-detection key term per list (elements written p0.<List>[#i0])
var genesisListKey = map[string]string{
	"AttesterList":            "string(types.AttesterKey([]byte(p0.AttesterList[#i0].Attester)))",
	"PerMessageBurnLimitList": "string(types.PerMessageBurnLimitKey(p0.PerMessageBurnLimitList[#i0].Denom))",
	"TokenPairList":           "string(types.TokenPairKey(p0.TokenPairList[#i0].RemoteDomain,p0.TokenPairList[#i0].RemoteToken))",
	"UsedNoncesList":          "string(types.UsedNonceKey(p0.UsedNoncesList[#i0].Nonce,p0.UsedNoncesList[#i0].SourceDomain))",
	"TokenMessengerList":      "string(types.RemoteTokenMessengerKey(p0.TokenMessengerList[#i0].DomainId))",
}

// optional fields and their documented defaults when absent
var genesisDefaults = map[string]string{
	"BurningAndMintingPaused":           "types.BurningAndMintingPaused{Paused:true}",
	"SendingAndReceivingMessagesPaused": "types.SendingAndReceivingMessagesPaused{Paused:true}",
	"MaxMessageBodySize":                "types.MaxMessageBodySize{Amount:8000}",
	"NextAvailableNonce":                "types.Nonce{}",
	"SignatureThreshold":                "types.SignatureThreshold{Amount:1}",
}

func init() { register("C17", "other", runC17) }

// optFlow describes how InitGenesis stores an optional field: either two setter calls
// (`if f != nil { Set(*f) } else { Set(DEFAULT) }`) or one setter call on a local that
// starts as DEFAULT and is overwritten by *f (`v := DEFAULT; if f != nil { v = *f }; Set(v)`).
type optFlow struct {
	given      ssa.Instruction   // the call / the store that carries *genState.F
	defaults   []ssa.Instruction // the calls storing DEFAULT (two-call shape)
	set        *ssa.Call         // the setter call that consumes the given value
	hasDefault bool
	why        string
	// select-helper shape: `Set(valueOr(f, DEFAULT))` with a NEW two-exit helper; decided
	// inside the helper (givenOnlyWhenPresent / presentIsGiven are then final)
	viaHelper            bool
	givenOnlyWhenPresent bool
	presentIsGiven       bool
}

func optionalInit(ci *FC, f, def string) optFlow {
	var fl optFlow
	calls := ci.calls("k.Set" + f)
	if f == "NextAvailableNonce" && len(calls) == 0 {
		calls = ci.calls("k.SetNextAvailableNonce")
	}
	givenT := "*p2." + f
	var single []*ssa.Call
	for _, call := range calls {
		switch arg := ci.args(call)[1]; arg {
		case givenT:
			if fl.given != nil {
				fl.given, fl.why = nil, "several sites store the given value"
				return fl
			}
			fl.given, fl.set = call, call
		case def:
			fl.defaults = append(fl.defaults, call)
			fl.hasDefault = true
		default:
			single = append(single, call)
		}
	}
	if fl.given != nil || len(single) != 1 {
		if fl.given == nil {
			fl.why = fmt.Sprintf("%d setter calls, none with argument %s", len(calls), givenT)
		}
		return fl
	}
	// one call whose argument is selected by a new helper
	call := single[0]
	argv := call.Call.Args[2]
	if ld, ok := argv.(*ssa.UnOp); ok && ld.Op == token.MUL {
		// a local that is assigned exactly once
		if alloc, ok := ld.X.(*ssa.Alloc); ok {
			var stores []*ssa.Store
			for _, ref := range *alloc.Referrers() {
				if st, ok := ref.(*ssa.Store); ok && st.Addr == ssa.Value(alloc) {
					stores = append(stores, st)
				}
			}
			if len(stores) == 1 {
				argv = stores[0].Val
			}
		}
	}
	if hc, ok := argv.(*ssa.Call); ok {
		if h := hc.Call.StaticCallee(); ci.p.newHelper(h) {
			hx := ci.p.tx(h)
			henv := ci.callEnv(ci.x, nil, hc)
			var rets []vret
			for _, hr := range allReturns(h) {
				rets = append(rets, ci.expandReturn(h, hx, henv, hr, 1)...)
			}
			var gv, dv []vret
			for _, vr := range rets {
				switch {
				case len(vr.vals) == 1 && vr.vals[0] == givenT:
					gv = append(gv, vr)
				case len(vr.vals) == 1 && vr.vals[0] == def:
					dv = append(dv, vr)
				default:
					fl.why = fmt.Sprintf("helper %s can return %v", funcName(h), vr.vals)
					return fl
				}
			}
			if len(gv) == 0 || len(dv) == 0 {
				fl.why = fmt.Sprintf("helper %s returns the given value on %d exits and the default on %d", funcName(h), len(gv), len(dv))
				return fl
			}
			fl.viaHelper, fl.given, fl.set, fl.hasDefault = true, call, call, true
			present := []Atom{A("!(nil == p2." + f + ")")}
			absent := []Atom{A("(nil == p2." + f + ")")}
			fl.givenOnlyWhenPresent, fl.presentIsGiven = true, true
			for _, vr := range gv {
				if !cutQuery(vr.cfn, vr.ifs, present, []ssa.Instruction{vr.at}).Holds {
					fl.givenOnlyWhenPresent = false
				}
			}
			for _, vr := range dv {
				if !cutQuery(vr.cfn, vr.ifs, absent, []ssa.Instruction{vr.at}).Holds {
					fl.presentIsGiven = false
				}
			}
			return fl
		}
	}
	// one call on a local variable
	want := phiOf([]*Term{mk("const", givenT), mk("const", def)}).String()
	got := ci.args(call)[1]
	if got != want {
		fl.why = "stored value is " + got + ", expected " + want
		return fl
	}
	ld, ok := call.Call.Args[2].(*ssa.UnOp)
	if !ok {
		fl.why = "stored value is not a local variable"
		return fl
	}
	alloc, ok := ld.X.(*ssa.Alloc)
	if !ok {
		fl.why = "stored value is not a local variable"
		return fl
	}
	for _, ref := range *alloc.Referrers() {
		if st, ok := ref.(*ssa.Store); ok && st.Addr == ssa.Value(alloc) && ci.term(st.Val, st) == givenT {
			if fl.given != nil {
				fl.given, fl.why = nil, "several stores of the given value"
				return fl
			}
			fl.given = st
		}
	}
	fl.set = call
	fl.hasDefault = fl.given != nil
	return fl
}

// presentUsesGiven: on the side of the branch where the field is present, the value that
// reaches the store is the given one: in the two-call shape no default call can execute
// there; in the one-call shape the setter is unreachable there without the overwrite.
func (fl optFlow) presentUsesGiven(ci *FC, g []Atom) bool {
	edges, matched := passEdges(ci.ifs, g)
	if len(matched) == 0 {
		return false
	}
	for _, ii := range matched {
		b := ii.in.Block()
		// (the branch, the default call and the setter may all live in a new helper: the
		// question is asked of the function that contains the branch)
		fi := ci.p.info(b.Parent())
		for slot, s := range b.Succs {
			if !edges[Edge{b, slot, ii.site}] {
				continue
			}
			for _, d := range fl.defaults {
				if fi.blockReachesAvoiding(s, d, nil) {
					return false
				}
			}
			if fl.set != nil && fl.given != ssa.Instruction(fl.set) && fi.blockReachesAvoiding(s, fl.set, []ssa.Instruction{fl.given}) {
				return false
			}
		}
	}
	return true
}

var getterRe = regexp.MustCompile(`k\.([A-Za-z]+)\(ctx\)`)

func runC17(p *Prog, r *Report, tier string) {
	r.Rule = "field coverage of InitGenesis/ExportGenesis over the GenesisState type; field<->region pairing; region coverage vs every region a handler can write; duplicate-detection wiring of the 5 keyed lists; defaults and nil checks"
	r.Explanation = "Decided: each of the 14 GenesisState fields is read by InitGenesis and assigned by ExportGenesis; the region InitGenesis writes for a field is the region the getter used by ExportGenesis for that field reads; every store region that some transaction handler can write is both exported and imported " +
		"(known finding: raw:pending-owner, written by UpdateOwner, has no genesis field); in Validate each of the five keyed lists is ranged over in full, its duplicate index is string(KeyFn(element fields)) with the same key function and field order as the keeper's setter, " +
		"the map that is tested is the map that is inserted into (no map is shared between lists), and a hit returns a non-nil error; absent optional fields get the documented defaults; Validate rejects nil pause flags. " +
		"Not decided: JSON/proto (un)marshalling and the run-time multiset equality export(init(g)) = g, which follow from the pairing when the codec is faithful."
	r.Assumptions = []string{"go/ssa faithfully represents the module code", "the proto/JSON codec round-trips GenesisState", "store iteration returns every entry under a prefix exactly once"}
	r.Trusted = r.Assumptions

	wiringObligations(p, r)
	// GenesisState fields from the type
	gsObj := p.SPkgs[modulePkgs[0]].Pkg.Scope().Lookup("GenesisState")
	if gsObj == nil {
		r.fail("anchor", "anchor/GenesisState", "", "type GenesisState not found")
		return
	}
	st := gsObj.Type().Underlying().(*types.Struct)
	var fields []string
	for i := 0; i < st.NumFields(); i++ {
		f := st.Field(i)
		if strings.HasPrefix(f.Name(), "XXX_") {
			continue
		}
		fields = append(fields, f.Name())
		if _, ok := genesisFieldRegion[f.Name()]; !ok {
			r.fail("field-coverage", "field-coverage/table/"+f.Name(), "", "GenesisState has field "+f.Name()+" that the oracle table does not know (unclassified field)")
		}
	}
	r.floor("genesis-fields", len(fields), 14)

	initFn := p.Func("cctp.InitGenesis")
	exportFn := p.Func("cctp.ExportGenesis")
	ci := p.fc(r, initFn, "InitGenesis", nil)
	ce := p.fc(r, exportFn, "ExportGenesis", nil)
	if ci == nil || ce == nil {
		return
	}
	// --- init: per field, a write on the field's region whose value mentions p2.<Field>
	initEffs := p.closure(initFn)
	writtenBy := map[string][]string{} // region -> value terms
	for _, e := range initEffs {
		if e.Kind == "W" {
			writtenBy[e.Region] = append(writtenBy[e.Region], e.Val.String())
		}
		if e.Kind == "D" {
			r.fail("field-coverage", "init/deletes/"+e.Region, p.instrPos(e.In), "InitGenesis deletes from "+e.Region)
		}
	}
	for _, f := range fields {
		region := genesisFieldRegion[f]
		vals := writtenBy[region]
		uses := false
		for _, v := range vals {
			if strings.Contains(v, "p2."+f+")") || strings.Contains(v, "p2."+f+"[") || strings.HasSuffix(v, "p2."+f) || strings.Contains(v, "*p2."+f) {
				uses = true
			}
		}
		if def, ok := genesisDefaults[f]; ok && !uses {
			// through a selecting helper: the given value is one of the helper's results
			if fl := optionalInit(ci, f, def); fl.viaHelper && fl.given != nil {
				uses = true
			}
		}
		r.check(uses, "field-coverage", "field-coverage/init/"+f, ci.pos(), "InitGenesis stores genState."+f+" into "+region,
			fmt.Sprintf("InitGenesis does not store genState.%s into region %s (values written there: %v)", f, region, vals))
		if strings.HasSuffix(f, "List") {
			// every element: the stored value is the loop element, and the loop ranges over the whole list
			// (the loop may live in InitGenesis, counter #i0, or in a new helper, counter #^i0)
			each, whole := false, false
			for _, ctr := range []string{"#i0", "#^i0"} {
				e, w := false, false
				for _, v := range vals {
					if v == "k.cdc.MustMarshal(&p2."+f+"["+ctr+"])" {
						e = true
					}
				}
				for _, ii := range ci.ifs {
					if ii.atom.Key == "("+ctr+" < len(p2."+f+"))" {
						w = true
					}
				}
				if e && w {
					each, whole = true, true
				}
			}
			if early := ci.earlyLoopExits(); len(early) > 0 {
				whole = false
				vals = append(vals, "early loop exit: "+early[0])
			}
			r.check(each && whole, "field-coverage", "field-coverage/init-every-element/"+f, ci.pos(), "every element of genState."+f+" is stored",
				fmt.Sprintf("InitGenesis does not store every element of genState.%s (values: %v, whole-list loop: %v)", f, vals, whole))
		}
		if def, ok := genesisDefaults[f]; ok {
			flow := optionalInit(ci, f, def)
			r.check(flow.hasDefault, "defaults", "defaults/init/"+f, ci.pos(), "absent "+f+" defaults to "+def, fmt.Sprintf("default for absent %s is not %s (%s; values: %v)", f, def, flow.why, vals))
			// the given value is used exactly when the field is non-nil
			g := []Atom{A("!(nil == p2." + f + ")")}
			if flow.viaHelper {
				r.check(flow.givenOnlyWhenPresent, "defaults", "defaults/InitGenesis/given-"+f+"-only-when-present", p.instrPos(flow.given),
					"the selecting helper returns the given "+f+" only when it is present", "the selecting helper can return *"+f+" when it is nil, or the given value without testing presence")
				r.check(flow.presentIsGiven, "defaults", "defaults/InitGenesis/present-"+f+"-is-stored", p.instrPos(flow.given),
					"a present "+f+" is what gets stored", "the selecting helper can return the default although "+f+" is present")
			} else if flow.given != nil {
				ci.requireCut("defaults", "given-"+f+"-only-when-present", g, []ssa.Instruction{flow.given})
				r.check(flow.presentUsesGiven(ci, g), "defaults", "defaults/InitGenesis/present-"+f+"-is-stored", p.instrPos(flow.given),
					"a present "+f+" is what gets stored", "a present "+f+" can be replaced by the default before it is stored")
			} else {
				r.fail("defaults", "defaults/InitGenesis/given-"+f, ci.pos(), "no single site stores the given "+f+" ("+flow.why+")")
			}
		}
	}
	// roles are written unconditionally (used by C20's discharge of the role getters' panics)
	for _, s := range []string{"k.SetOwner", "k.SetAttesterManager", "k.SetPauser", "k.SetTokenController"} {
		calls := ci.calls(s)
		var rets []ssa.Instruction
		for _, ret := range allReturns(initFn) {
			rets = append(rets, ret)
		}
		ci.mustPass("field-coverage", "unconditional/"+s, ci.instrs(calls), rets)
	}

	// --- export: fields assigned, each from a getter reading the field's region
	stores := exportStores(ce)
	for _, f := range fields {
		region := genesisFieldRegion[f]
		val, ok := stores[f]
		if !ok {
			r.fail("field-coverage", "field-coverage/export/"+f, ce.pos(), "ExportGenesis never assigns "+f+": that part of the state is dropped from the export")
			continue
		}
		m := getterRe.FindStringSubmatch(val)
		if m == nil {
			r.undecided("field-coverage", "field-coverage/export/"+f, ce.pos(), "exported value of "+f+" is not a keeper getter: "+val)
			continue
		}
		g := p.Func("keeper.Keeper." + m[1])
		var reads []string
		if g != nil {
			for _, e := range p.closure(g) {
				if e.Kind == "R" || e.Kind == "ITER" || e.Kind == "PAGE" {
					reads = append(reads, e.Region)
				}
			}
		}
		r.check(len(reads) == 1 && reads[0] == region, "pairing", "pairing/export/"+f, ce.pos(),
			fmt.Sprintf("%s exported from %s which reads %s", f, m[1], region),
			fmt.Sprintf("%s is exported from %s which reads %v, but InitGenesis writes it to %s", f, m[1], reads, region))
		// optional fields are exported only when found
		if _, opt := genesisDefaults[f]; opt {
			want := "&k." + m[1] + "(ctx)#0"
			ce.teq("pairing", "export-value/"+f, val, want, ce.pos())
		}
	}
	// list getters return every entry
	for _, row := range []struct{ getter, region string }{
		{"GetAllAttesters", "Attester/value/"}, {"GetAllPerMessageBurnLimits", "PerMessageBurnLimit/value/"}, {"GetAllTokenPairs", "TokenPair/value/"},
		{"GetAllUsedNonces", "UsedNonce/value/"}, {"GetRemoteTokenMessengers", "RemoteTokenMessenger/value/"}} {
		getAllContract(p, r, row.getter, row.region, "")
	}
	// export writes nothing
	for _, e := range p.closure(exportFn) {
		if e.Kind == "W" || e.Kind == "D" || e.Kind == "LEDGER" || e.Kind == "EVENT" {
			r.fail("field-coverage", "export/effect/"+e.String(), p.instrPos(e.In), "ExportGenesis has effect "+e.String())
		}
	}

	// --- region coverage: every region a handler can write is exported and imported
	handlerRegions := map[string]string{}
	for _, h := range p.txHandlers() {
		for _, e := range p.closure(h.Fn) {
			if e.Kind == "W" || e.Kind == "D" {
				if _, ok := handlerRegions[e.Region]; !ok {
					handlerRegions[e.Region] = h.Name
				}
			}
		}
	}
	exportReads := map[string]bool{}
	for _, e := range p.closure(exportFn) {
		if e.Kind == "R" || e.Kind == "ITER" {
			exportReads[e.Region] = true
		}
	}
	var regs []string
	for g := range handlerRegions {
		regs = append(regs, g)
	}
	sort.Strings(regs)
	r.floor("handler-writable-regions", len(regs), 15)
	for _, g := range regs {
		r.check(exportReads[g], "region-coverage", "region-coverage/export/"+g, ce.pos(), "exported",
			fmt.Sprintf("region %s can be written by %s but ExportGenesis never reads it: that state is lost by export/import", g, handlerRegions[g]))
		r.check(len(writtenBy[g]) > 0, "region-coverage", "region-coverage/init/"+g, ci.pos(), "imported",
			fmt.Sprintf("region %s can be written by %s but InitGenesis never writes it: that state cannot be restored", g, handlerRegions[g]))
	}

	// --- Validate
	vf := p.Func("types.GenesisState.Validate")
	cv := p.fc(r, vf, "Validate", nil)
	if cv == nil {
		return
	}
	type mapUse struct {
		m, key string
		in     ssa.Instruction
	}
	var lookups, updates []mapUse
	hc := strings.NewReplacer("#^i0", "#i0") // the loop may live in a new helper
	for _, in := range cv.vinstrs() {
		switch in := in.(type) {
		case *ssa.Lookup:
			if _, ok := in.X.Type().Underlying().(*types.Map); ok {
				lookups = append(lookups, mapUse{cv.term(in.X, in), hc.Replace(cv.term(in.Index, in)), in})
			}
		case *ssa.MapUpdate:
			updates = append(updates, mapUse{cv.term(in.Map, in), hc.Replace(cv.term(in.Key, in)), in})
		}
	}
	mapOwner := map[string]string{}
	lists := make([]string, 0, len(genesisListKey))
	for l := range genesisListKey {
		lists = append(lists, l)
	}
	sort.Strings(lists)
	for _, list := range lists {
		key := genesisListKey[list]
		var lk, up []mapUse
		for _, u := range lookups {
			if u.key == key {
				lk = append(lk, u)
			}
		}
		for _, u := range updates {
			if u.key == key {
				up = append(up, u)
			}
		}
		if len(lk) != 1 || len(up) != 1 {
			var seen []string
			for _, u := range lookups {
				seen = append(seen, u.key)
			}
			r.fail("dup-detection", "dup-detection/"+list+"/wiring", cv.pos(),
				fmt.Sprintf("expected one lookup and one insert keyed %s; found %d lookups, %d inserts (lookup keys present: %v)", key, len(lk), len(up), seen))
			continue
		}
		r.check(lk[0].m == up[0].m, "dup-detection", "dup-detection/"+list+"/same-map", p.instrPos(lk[0].in),
			"the map tested is the map inserted into ("+lk[0].m+")",
			fmt.Sprintf("duplicate check for %s tests %s but inserts into %s: duplicates are never detected", list, lk[0].m, up[0].m))
		if prev, ok := mapOwner[up[0].m]; ok {
			r.fail("dup-detection", "dup-detection/"+list+"/own-map", p.instrPos(up[0].in), "index map "+up[0].m+" is shared with "+prev)
		}
		mapOwner[up[0].m] = list
		// the map is a fresh local map
		if _, ok := up[0].in.(*ssa.MapUpdate).Map.(*ssa.MakeMap); !ok {
			r.fail("dup-detection", "dup-detection/"+list+"/fresh-map", p.instrPos(up[0].in), "index map is not a fresh local map")
		}
		// a hit rejects: success return is cut by "no hit", and the hit arm is an error exit
		hit := cv.term(lk[0].in.(*ssa.Lookup), lk[0].in) + "#1"
		if lookup := lk[0].in.(*ssa.Lookup); !lookup.CommaOk {
			// map[string]bool form: `if seen[key] {dup}; seen[key] = true` — the element itself is
			// the hit flag, which requires the inserted value to be the constant true
			hit = cv.term(lookup, lookup)
			val := cv.term(up[0].in.(*ssa.MapUpdate).Value, up[0].in)
			r.check(val == "true", "dup-detection", "dup-detection/"+list+"/inserted-flag", p.instrPos(up[0].in),
				"the flag inserted is true", "the duplicate flag inserted is "+val+", not true: a later lookup does not report a hit")
		}
		g := []Atom{A("!" + hit)}
		// every loop iteration passes the test before the insert
		cv.requireCut("dup-detection", list+"/insert-behind-test", g, []ssa.Instruction{up[0].in})
		cv.requireFailArm("dup-detection", list+"/hit-rejects", g, false)
		// the loop ranges over the whole list: header test is index < len(list)
		full := false
		for _, ii := range cv.ifs {
			if ii.atom.Key == "(#i0 < len(p0."+list+"))" || ii.atom.Key == "(#^i0 < len(p0."+list+"))" {
				full = true
			}
		}
		early := cv.earlyLoopExits()
		r.check(full && len(early) == 0, "dup-detection", "dup-detection/"+list+"/whole-list", cv.pos(), "ranges over the whole list; the loops of Validate are left only by their own test or by a rejection", fmt.Sprintf("the duplicate check no longer ranges over the whole %s (header test present: %v; early exits: %v)", list, full, early))
	}
	for _, f := range []string{"BurningAndMintingPaused", "SendingAndReceivingMessagesPaused"} {
		g := []Atom{A("!(nil == p0." + f + ")")}
		cv.requireCut("nil-check", f, g, cv.successReturns())
		cv.requireFailArm("nil-check", f, g, false)
	}
	for _, f := range []string{"Owner", "AttesterManager", "Pauser", "TokenController"} {
		g := []Atom{A(`("" == p0.` + f + ")"), A("(nil == sdk.AccAddressFromBech32(p0." + f + ")#1)")}
		cv.requireCut("address-check", f, g, cv.successReturns())
	}
	// key functions used by Validate are the setters' key functions (K-agree, all five)
	kAgree(p, r, "attesters", "Attester/value/", map[string]string{"SetAttester": "W types.AttesterKey([]byte(p2.Attester))"})
	kAgree(p, r, "burn-limits", "PerMessageBurnLimit/value/", map[string]string{"SetPerMessageBurnLimit": "W types.PerMessageBurnLimitKey(p2.Denom)"})
	kAgree(p, r, "token-pairs", "TokenPair/value/", map[string]string{"SetTokenPair": "W types.TokenPairKey(p2.RemoteDomain,p2.RemoteToken)"})
	kAgree(p, r, "used-nonces", "UsedNonce/value/", map[string]string{"SetUsedNonce": "W types.UsedNonceKey(p2.Nonce,p2.SourceDomain)"})
	kAgree(p, r, "messengers", "RemoteTokenMessenger/value/", map[string]string{"SetRemoteTokenMessenger": "W types.RemoteTokenMessengerKey(p2.DomainId)"})
}

// exportStores: field -> term assigned through the GenesisState pointer returned by ExportGenesis.
func exportStores(c *FC) map[string]string {
	out := map[string]string{}
	for _, ret := range allReturns(c.fn) {
		if len(ret.Results) == 1 {
			for f, v := range storesThrough(c, ret.Results[0]) {
				out[f] = v
			}
		}
	}
	return out
}
