package main

import (
	"fmt"
	"go/types"
	"os"
	"path/filepath"
	"sort"
	"strings"

	"golang.org/x/tools/go/ssa"
)

// commonObligations are the fail-closed loader obligations shared by all properties (DESIGN §E0).
func commonObligations(p *Prog, r *Report) {
	keeperBindingObligation(p, r)
	mutationDiscipline(p, r)
	resolutionObligation(p, r)
	wiringExact(p, r)
	moduleHooksObligation(p, r)
	boundaryObligation(p, r)
	accessorObligation(p, r)
	generatedObligation(p, r)
	// 1. every non-test .go file on disk under x/cctp is compiled into a loaded package
	compiled := map[string]bool{}
	for _, path := range modulePkgs {
		for _, f := range p.Pkgs[path].CompiledGoFiles {
			compiled[f] = true
		}
	}
	var missing []string
	nDisk := 0
	filepath.Walk(filepath.Join(p.Root, "x", "cctp"), func(path string, info os.FileInfo, err error) error {
		if err != nil || info.IsDir() {
			return nil
		}
		if !strings.HasSuffix(path, ".go") || strings.HasSuffix(path, "_test.go") {
			return nil
		}
		nDisk++
		if !compiled[path] {
			missing = append(missing, path)
		}
		return nil
	})
	r.check(len(missing) == 0, "loader", "loader/all-files-compiled", "",
		fmt.Sprintf("%d non-test .go files under x/cctp, all in CompiledGoFiles of the 4 module packages", nDisk),
		fmt.Sprintf("files on disk not seen by the analysis (build tag or package clause hides them): %v", missing))
	// extra packages under x/... beyond the four expected
	var extra []string
	for path := range p.Pkgs {
		if !p.isModulePkgPath(path) {
			extra = append(extra, path)
		}
	}
	sort.Strings(extra)
	r.check(len(extra) == 0, "loader", "loader/package-set", "", "exactly the 4 expected packages under ./x/...",
		fmt.Sprintf("unexpected packages under ./x/...: %v (not covered by the rule tables)", extra))
	// 2. soundness assumptions: no unsafe / reflect / cgo / linkname in module code
	var badImp []string
	for _, path := range modulePkgs {
		pk := p.Pkgs[path]
		for i, f := range pk.Syntax {
			name := pk.CompiledGoFiles[i]
			if isGeneratedName(name) {
				continue
			}
			for _, imp := range f.Imports {
				ip := strings.Trim(imp.Path.Value, `"`)
				if ip == "unsafe" || ip == "reflect" || ip == "C" {
					badImp = append(badImp, fmt.Sprintf("%s imports %s", p.pos(imp.Pos()), ip))
				}
			}
			for _, cg := range f.Comments {
				for _, c := range cg.List {
					if strings.HasPrefix(c.Text, "//go:linkname") {
						badImp = append(badImp, fmt.Sprintf("%s go:linkname", p.pos(c.Pos())))
					}
				}
			}
		}
	}
	r.check(len(badImp) == 0, "loader", "loader/no-unsafe-reflect-cgo-linkname", "",
		"module code imports none of unsafe, reflect, C and has no go:linkname",
		fmt.Sprintf("soundness assumption of the SSA analysis broken: %v", badImp))
	r.floor("module-functions", len(p.Funcs), 150)
}

// ---------------------------------------------------------------------------
// E1 inventory

type Handler struct {
	Name string
	Fn   *ssa.Function
	Msg  *types.Named // request message type
}

func (p *Prog) ifaceMethods(pkgShort, iface string) []string {
	sp := p.SPkgs[modulePkgs[0]]
	obj := sp.Pkg.Scope().Lookup(iface)
	if obj == nil {
		return nil
	}
	it, ok := obj.Type().Underlying().(*types.Interface)
	if !ok {
		return nil
	}
	var out []string
	for i := 0; i < it.NumMethods(); i++ {
		out = append(out, it.Method(i).Name())
	}
	sort.Strings(out)
	return out
}

// txHandlers: the method set of types.MsgServer resolved on keeper.msgServer.
func (p *Prog) txHandlers() []Handler {
	var out []Handler
	for _, m := range p.ifaceMethods("types", "MsgServer") {
		fn := p.declFunc(p.Func("keeper.msgServer." + m))
		h := Handler{Name: m, Fn: fn}
		if fn != nil && len(fn.Params) == 3 {
			if ptr, ok := fn.Params[2].Type().(*types.Pointer); ok {
				h.Msg, _ = ptr.Elem().(*types.Named)
			}
		}
		out = append(out, h)
	}
	return out
}

// queryHandlers: the method set of types.QueryServer resolved on keeper.Keeper.
func (p *Prog) queryHandlers() []Handler {
	var out []Handler
	for _, m := range p.ifaceMethods("types", "QueryServer") {
		fn := p.declFunc(p.Func("keeper.Keeper." + m))
		h := Handler{Name: m, Fn: fn}
		out = append(out, h)
	}
	return out
}

// inventoryObligations: 25 tx handlers, 19 queries, genesis entry points, service wiring.
func inventoryObligations(p *Prog, r *Report, table map[string]bool, kind string) []Handler {
	var hs []Handler
	if kind == "tx" {
		hs = p.txHandlers()
	} else {
		hs = p.queryHandlers()
	}
	for _, h := range hs {
		if h.Fn == nil || h.Fn.Blocks == nil {
			r.fail("inventory", "inventory/"+kind+"/"+h.Name, "", "handler has no analysable body")
			continue
		}
		if !p.inModuleCode(h.Fn) {
			r.fail("inventory", "inventory/"+kind+"/"+h.Name, p.pos(h.Fn.Pos()), "handler body is not in module code")
			continue
		}
		if table != nil && !table[h.Name] {
			r.fail("inventory", "inventory/"+kind+"/"+h.Name, p.pos(h.Fn.Pos()), "unclassified handler: present in the service interface but not in this property's table")
		}
	}
	if table != nil {
		names := map[string]bool{}
		for _, h := range hs {
			names[h.Name] = true
		}
		for t := range table {
			if !names[t] {
				r.fail("inventory", "inventory/"+kind+"/"+t, "", "table row for a handler that is no longer in the service interface")
			}
		}
	}
	return hs
}

// wiringObligations: the functions analysed are the functions served.
func keeperBindingObligation(p *Prog, r *Report) {
	// NewKeeper binds the dependencies it is given, unwrapped: what the handlers call as
	// k.bank / k.fiattokenfactory / k.storeService is the application's keeper, not a module-made
	// stand-in that could do more (or less) per call
	if nk := p.Func("keeper.NewKeeper"); nk == nil {
		r.fail("wiring", "wiring/NewKeeper", "", "constructor not found")
	} else {
		want := map[string]int{"cdc": 0, "logger": 1, "storeService": 2, "bank": 3, "fiattokenfactory": 4}
		got := map[string]string{}
		okShape := false
		for _, ret := range allReturns(nk) {
			if a, ok := ret.Results[0].(*ssa.Alloc); ok {
				okShape = true
				for _, ref := range *a.Referrers() {
					fa, ok := ref.(*ssa.FieldAddr)
					if !ok {
						if _, isRet := ref.(*ssa.Return); !isRet {
							okShape = false
						}
						continue
					}
					for _, fr := range *fa.Referrers() {
						st, ok := fr.(*ssa.Store)
						if !ok || st.Addr != ssa.Value(fa) {
							okShape = false
							continue
						}
						val := st.Val
						if mi, ok := val.(*ssa.MakeInterface); ok {
							val = mi.X
						}
						if prm, ok := val.(*ssa.Parameter); ok {
							for i, q := range nk.Params {
								if q == prm {
									got[fieldName(fa)] = fmt.Sprintf("p%d", i)
								}
							}
						} else {
							got[fieldName(fa)] = fmt.Sprintf("%T", val)
						}
					}
				}
			}
		}
		okAll := okShape && len(allReturns(nk)) == 1 && len(got) == len(want)
		for f, i := range want {
			if got[f] != fmt.Sprintf("p%d", i) {
				okAll = false
			}
		}
		r.check(okAll, "wiring", "wiring/NewKeeper/binds-its-parameters", p.pos(nk.Pos()), "keeper fields are the constructor's parameters",
			fmt.Sprintf("NewKeeper binds %v: a dependency is wrapped, replaced or dropped", got))
	}
}

func wiringObligations(p *Prog, r *Report) {
	// NewMsgServerImpl returns &msgServer{Keeper: keeper}
	fn := p.Func("keeper.NewMsgServerImpl")
	if fn == nil {
		r.fail("wiring", "wiring/NewMsgServerImpl", "", "constructor not found")
	} else {
		x := p.tx(fn)
		okc := false
		for _, b := range fn.Blocks {
			for _, in := range b.Instrs {
				if ret, ok := in.(*ssa.Return); ok && len(ret.Results) == 1 {
					if mi, ok := ret.Results[0].(*ssa.MakeInterface); ok {
						okc = isNamed(mi.X.Type(), modPath+"/x/cctp/keeper", "msgServer")
					}
					_ = x
				}
			}
		}
		r.check(okc, "wiring", "wiring/NewMsgServerImpl", p.pos(fn.Pos()), "returns a keeper.msgServer as types.MsgServer", "NewMsgServerImpl no longer returns keeper.msgServer: the analysed handlers may not be the served ones")
	}
	// AppModule.RegisterServices registers NewMsgServerImpl(keeper) and the keeper
	rs := p.Func("cctp.AppModule.RegisterServices")
	if rs == nil {
		r.fail("wiring", "wiring/RegisterServices", "", "AppModule.RegisterServices not found")
		return
	}
	x := p.tx(rs)
	var sawMsg, sawQuery bool
	for _, b := range rs.Blocks {
		for _, in := range b.Instrs {
			c, ok := in.(*ssa.Call)
			if !ok {
				continue
			}
			t := x.Of(c, c).String()
			if strings.HasPrefix(t, "types.RegisterMsgServer(") && strings.Contains(t, "keeper.NewMsgServerImpl(") {
				sawMsg = true
			}
			if strings.HasPrefix(t, "types.RegisterQueryServer(") {
				sawQuery = true
			}
		}
	}
	r.check(sawMsg && sawQuery, "wiring", "wiring/RegisterServices", p.pos(rs.Pos()),
		"registers keeper.NewMsgServerImpl(keeper) as MsgServer and the keeper as QueryServer",
		"service registration changed: the served implementation is not the analysed one")
	// genesis wiring
	for _, w := range []struct{ method, callee string }{
		{"cctp.AppModule.InitGenesis", "cctp.InitGenesis"},
		{"cctp.AppModule.ExportGenesis", "cctp.ExportGenesis"},
		{"cctp.AppModuleBasic.ValidateGenesis", "(types.GenesisState).Validate"},
	} {
		fn := p.Func(w.method)
		found := false
		if fn != nil {
			for _, b := range fn.Blocks {
				for _, in := range b.Instrs {
					if c, ok := in.(*ssa.Call); ok {
						if callee := c.Call.StaticCallee(); callee != nil && funcName(callee) == w.callee {
							found = true
						}
					}
				}
			}
		}
		r.check(found, "wiring", "wiring/"+w.method, "", w.method+" calls "+w.callee, w.method+" does not call "+w.callee)
	}
}

// resolutionObligation: every call in module code resolves to the code that runs — no invoke
// on an interface a module type implements, no function value of unknown origin, no recursive
// helper whose inner activation the effect summary would skip. (All properties: an unresolved
// call can hide any effect, check or write.)
func resolutionObligation(p *Prog, r *Report) {
	n, bad := 0, 0
	seen := map[string]bool{}
	isCLI := func(fn *ssa.Function) bool {
		top := fn
		for top.Parent() != nil {
			top = top.Parent()
		}
		return top.Package() != nil && top.Package().Pkg.Path() == modulePkgs[3]
	}
	for _, fn := range p.Funcs {
		if isCLI(fn) {
			continue // CLI: gRPC client stubs (types.QueryClient / MsgClient), not consensus code
		}
		n++
		for _, u := range p.effects(fn).unresolved {
			key := "unresolved/" + funcName(fn) + "/" + u
			if !seen[key] {
				seen[key] = true
				bad++
				r.fail("resolution", key, p.pos(fn.Pos()), "unresolved dynamic call in module code: "+u)
			}
		}
		for _, b := range fn.Blocks {
			for _, in := range b.Instrs {
				switch in := in.(type) {
				case *ssa.Defer:
					// the only deferred call of the reference tree: closing a store iterator. A deferred
					// call runs after everything the path rules order, and no term, must-pass or caller
					// rule looks at it.
					if !(in.Call.IsInvoke() && in.Call.Method.Name() == "Close" && strings.HasSuffix(in.Call.Value.Type().String(), "Iterator")) {
						bad++
						r.fail("resolution", "deferred/"+funcName(fn)+"/"+calleeLabel(in), p.instrPos(in), funcName(fn)+" defers "+calleeLabel(in)+": a deferred call runs after the steps the rules order and is not a call site for any of them (only iterator.Close() is deferred in the reference tree)")
					}
				case *ssa.Call:
					// interface methods: only the dependency / SDK interfaces of the reference tree. An
					// invoke runs code chosen at run time; for these the rules know what it may do (store
					// primitives, codec, bank, token factory, event manager, iterator, context). Any other
					// interface (hash.Hash, sort.Interface, io.Writer, a module-made one) can hide state,
					// memory writes or module code.
					if in.Call.IsInvoke() {
						nm := invokeName(&in.Call)
						if !readOnlyInvokes[nm] && !decoderInvokes[nm] {
							bad++
							key := "invoke/" + funcName(fn) + "/" + nm
							if !seen[key] {
								seen[key] = true
								r.fail("resolution", key, p.instrPos(in), funcName(fn)+" calls the interface method "+nm+", which is not one of the reference tree's dependency interfaces: what runs there (hidden state, writes into its arguments, module code) is outside every rule")
							}
						}
					}
				case *ssa.Go:
					bad++
					r.fail("resolution", "goroutine/"+funcName(fn), p.instrPos(in), funcName(fn)+" starts a goroutine: concurrent module code is outside every rule (and non-deterministic)")
				case *ssa.Select:
					bad++
					r.fail("resolution", "select/"+funcName(fn), p.instrPos(in), funcName(fn)+" uses select")
				}
			}
		}
		if fn.Parent() == nil {
			for _, e := range p.closure(fn) {
				if e.Kind == "UNRESOLVED" && strings.HasPrefix(e.Region, "recursive") {
					key := "unresolved/" + funcName(fn) + "/" + e.Region
					if !seen[key] {
						seen[key] = true
						bad++
						r.fail("resolution", key, p.pos(fn.Pos()), e.Region+" via "+strings.Join(e.Chain, " > "))
					}
				}
			}
		}
	}
	if p.ControlSSA != nil {
		gotInvoke, gotDefer := false, false
		for _, fn := range p.ControlFuncs {
			for _, b := range fn.Blocks {
				for _, in := range b.Instrs {
					switch in := in.(type) {
					case *ssa.Call:
						if in.Call.IsInvoke() && fn.Name() == "Hidden" {
							nm := invokeName(&in.Call)
							gotInvoke = !readOnlyInvokes[nm] && !decoderInvokes[nm]
						}
					case *ssa.Defer:
						if fn.Name() == "Late" && !(in.Call.IsInvoke() && in.Call.Method.Name() == "Close") {
							gotDefer = true
						}
					}
				}
			}
		}
		r.check(gotInvoke && gotDefer, "positive-control", "positive-control/resolution", "", "the resolution rule reports the fixture's unknown interface method and deferred call", "the resolution rule misses the fixture's unknown invoke or deferred call")
	}
	if bad == 0 {
		r.ok("resolution", "resolution/all", "", fmt.Sprintf("%d module functions: every call resolves statically, to a dependency interface, or to a function value bound at the call site; no recursion", n))
	}
}
