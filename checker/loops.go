package main

import (
	"fmt"
	"go/token"
	"sort"
	"strings"

	"golang.org/x/tools/go/ssa"
)

// loops.go: "yields a normal result or an error" also means "yields": every loop in code
// reachable from an entry point must have a recognised bound. Recognised: (a) a counting loop —
// the loop is left by a comparison of a counter (a phi that starts at a constant and grows by a
// positive constant on every way round, or that counter plus one: the range lowering) with a
// value that does not change inside the loop (defined outside it, or len of such a value);
// (b) a store-iterator loop — the loop is left when Iterator.Valid() is false and every way
// round passes Iterator.Next() on the same iterator. Anything else (a loop whose exit depends on
// a value recomputed from its own body) is undecided and fails.

type loopInfo struct {
	fn     *ssa.Function
	header *ssa.BasicBlock
	blocks map[*ssa.BasicBlock]bool
}

func (p *Prog) loopsOf(fn *ssa.Function) []loopInfo {
	fi := p.info(fn)
	var out []loopInfo
	for _, h := range fn.Blocks {
		isHeader := false
		for _, pr := range h.Preds {
			if h.Dominates(pr) {
				isHeader = true
			}
		}
		if !isHeader {
			continue
		}
		li := loopInfo{fn: fn, header: h, blocks: map[*ssa.BasicBlock]bool{h: true}}
		// natural loop: the blocks that reach a back-edge source without passing the header
		var stack []*ssa.BasicBlock
		for _, pr := range h.Preds {
			if h.Dominates(pr) && !li.blocks[pr] {
				li.blocks[pr] = true
				stack = append(stack, pr)
			}
		}
		for len(stack) > 0 {
			b := stack[len(stack)-1]
			stack = stack[:len(stack)-1]
			for _, pr := range b.Preds {
				if !li.blocks[pr] {
					li.blocks[pr] = true
					stack = append(stack, pr)
				}
			}
		}
		_ = fi
		out = append(out, li)
	}
	return out
}

func (p *Prog) loopBounded(li loopInfo) (bool, string) {
	var invariant func(v ssa.Value) bool
	invariant = func(v ssa.Value) bool {
		if bo, ok := v.(*ssa.BinOp); ok && li.blocks[bo.Block()] {
			return invariant(bo.X) && invariant(bo.Y)
		}
		switch o := v.(type) {
		case *ssa.Const, *ssa.Parameter, *ssa.FreeVar, *ssa.Global:
			return true
		case ssa.Instruction:
			if !li.blocks[o.Block()] {
				return true
			}
			// len(x) of an invariant x, computed inside the loop
			if c, ok := v.(*ssa.Call); ok {
				if bi, ok := c.Call.Value.(*ssa.Builtin); ok && bi.Name() == "len" {
					if in, ok := c.Call.Args[0].(ssa.Instruction); !ok || !li.blocks[in.Block()] {
						return true
					}
				}
			}
			if cv, ok := v.(*ssa.Convert); ok {
				if in, ok := cv.X.(ssa.Instruction); !ok || !li.blocks[in.Block()] {
					return true
				}
				if c, ok := cv.X.(*ssa.Call); ok {
					if bi, ok := c.Call.Value.(*ssa.Builtin); ok && bi.Name() == "len" {
						if in, ok := c.Call.Args[0].(ssa.Instruction); !ok || !li.blocks[in.Block()] {
							return true
						}
					}
				}
			}
		}
		return false
	}
	counter := func(v ssa.Value) bool {
		for i := 0; i < 3; i++ {
			switch o := v.(type) {
			case *ssa.Phi:
				if o.Block() != li.header {
					return false
				}
				_, step, ok := counterShape(o)
				return ok && step > 0
			case *ssa.BinOp:
				if o.Op != token.ADD && o.Op != token.MUL {
					return false
				}
				if k, isC := constInt(o.Y); isC && k > 0 {
					v = o.X
					continue
				}
				return false
			case *ssa.Convert:
				v = o.X
				continue
			default:
				return false
			}
		}
		return false
	}
	// the exits of the loop: Ifs inside it with a successor outside
	var why []string
	for b := range li.blocks {
		iff, ok := b.Instrs[len(b.Instrs)-1].(*ssa.If)
		if !ok {
			continue
		}
		leaves := !li.blocks[b.Succs[0]] || !li.blocks[b.Succs[1]]
		if !leaves {
			continue
		}
		// the bound must be tested on every way round: the exit test dominates every back edge
		onEvery := true
		for _, pr := range li.header.Preds {
			if li.header.Dominates(pr) && !b.Dominates(pr) && b != li.header {
				onEvery = false
			}
		}
		if !onEvery {
			continue
		}
		switch c := iff.Cond.(type) {
		case *ssa.BinOp:
			switch c.Op {
			case token.LSS, token.LEQ, token.GTR, token.GEQ, token.NEQ:
				if (counter(c.X) && invariant(c.Y)) || (counter(c.Y) && invariant(c.X)) {
					return true, "counting loop: counter compared with a loop-invariant bound"
				}
			}
			why = append(why, "exit test "+c.String()+" is not counter-vs-invariant")
		case *ssa.Call:
			if c.Call.IsInvoke() && c.Call.Method.Name() == "Valid" && strings.HasSuffix(c.Call.Value.Type().String(), "Iterator") {
				it := c.Call.Value
				// every way round calls it.Next()
				var nexts []ssa.Instruction
				for lb := range li.blocks {
					for _, in := range lb.Instrs {
						if nc, ok := in.(*ssa.Call); ok && nc.Call.IsInvoke() && nc.Call.Method.Name() == "Next" && nc.Call.Value == it {
							nexts = append(nexts, nc)
						}
					}
				}
				if len(nexts) == 0 {
					why = append(why, "iterator loop without Next()")
					continue
				}
				fi := p.info(li.fn)
				okAll := true
				for _, pr := range li.header.Preds {
					if !li.header.Dominates(pr) {
						continue
					}
					// from the first body block to this back edge avoiding Next
					body := b.Succs[0]
					if !li.blocks[body] {
						body = b.Succs[1]
					}
					if fi.blockReachesAvoiding(body, pr.Instrs[len(pr.Instrs)-1], nexts) {
						okAll = false
					}
				}
				if okAll {
					return true, "store-iterator loop: left when Valid() is false, Next() on every way round"
				}
				why = append(why, "a way round the iterator loop skips Next()")
				continue
			}
			why = append(why, "exit decided by a call")
		default:
			why = append(why, fmt.Sprintf("exit decided by %T", c))
		}
	}
	if len(why) == 0 {
		why = append(why, "no exit test that every way round passes")
	}
	return false, strings.Join(why, "; ")
}

func loopObligations(p *Prog, r *Report, reach map[*ssa.Function]bool) {
	var fns []*ssa.Function
	for fn := range reach {
		fns = append(fns, fn)
	}
	sort.Slice(fns, func(i, j int) bool { return funcName(fns[i]) < funcName(fns[j]) })
	n := 0
	for _, fn := range fns {
		for _, li := range p.loopsOf(fn) {
			n++
			ok, how := p.loopBounded(li)
			pos := p.instrPos(li.header.Instrs[0])
			key := fmt.Sprintf("P-loop/%s/b%d", funcName(fn), li.header.Index)
			r.check(ok, "P-loop", key, pos, how, "loop in "+funcName(fn)+" has no recognised bound ("+how+"): an input may keep it running for ever, which is neither a result nor an error")
		}
	}
	r.floor("loops-in-reachable-code", n, 8)
}

// earlyLoopExits: ways out of the loops of the virtual body of c (fn and the new helpers it
// reaches) other than the header's own test, from which a success-capable return of that
// function is reachable without re-entering the loop — a `break` (or `return nil`) that ends the
// iteration before the whole list / iterator was visited. An exit that can only reach error
// returns or panics is a rejection, not an early exit.
func (c *FC) earlyLoopExits() []string {
	var out []string
	fns := []*ssa.Function{c.fn}
	seen := map[*ssa.Function]bool{c.fn: true}
	for _, lc := range c.p.liftedCalls(c.fn) {
		if c.p.newHelper(lc.callee) && !seen[lc.callee] {
			seen[lc.callee] = true
			fns = append(fns, lc.callee)
		}
	}
	for _, fn := range fns {
		x := c.p.tx(fn)
		for _, li := range c.p.loopsOf(fn) {
			for b := range li.blocks {
				for slot, sb := range b.Succs {
					if li.blocks[sb] {
						continue
					}
					if b == li.header {
						continue // the loop's own test
					}
					// can a success-capable return be reached from sb?
					reach := reachFrom([]*ssa.BasicBlock{sb}, nil)
					for rb := range reach {
						if ret, ok := rb.Instrs[len(rb.Instrs)-1].(*ssa.Return); ok {
							if k := c.p.exitKind(x, ret); k != "error" {
								out = append(out, fmt.Sprintf("%s: edge %d of the branch at %s leaves the loop headed at %s towards the return at %s", funcName(fn), slot, c.p.instrPos(b.Instrs[len(b.Instrs)-1]), c.p.instrPos(li.header.Instrs[0]), c.p.instrPos(ret)))
								break
							}
						}
					}
				}
			}
		}
	}
	sort.Strings(out)
	return out
}
