package main

import (
	"fmt"
	"strings"

	"golang.org/x/tools/go/ssa"
)

func init() { register("C01", "other", runC01) }

var abVAS = [][2]string{
	{"I", "#i0"},
	{"SIG", "p1[(I * 65):((I * 65) + 65)]"},
	{"DIGEST", "ethcrypto.Keccak256(p0)"},
	{"ECR", "ethcrypto.Ecrecover(DIGEST,SIG)"},
	{"RECX", "(*math/big.Int).SetBytes(&math/big.Int{},ECR#0[1:33])"},
	{"RECY", "(*math/big.Int).SetBytes(&math/big.Int{},ECR#0[33:])"},
	{"LASTX", "phi(RECX|nil)"},
	{"LASTY", "phi(RECY|nil)"},
	{"ADDRLAST", "(ethcommon.Address).Bytes(ethcrypto.PubkeyToAddress(crypto/ecdsa.PublicKey{X:LASTX,Y:LASTY}))"},
	{"ADDRREC", "(ethcommon.Address).Bytes(ethcrypto.PubkeyToAddress(crypto/ecdsa.PublicKey{X:RECX,Y:RECY}))"},
	{"V", "SIG[(len(SIG) - 1)]"},
	// the previous signer kept as its address (loop-carried value) instead of as a key
	{"PREVADDR", "phi(ADDRREC|nil)"},
}

func runC01(p *Prog, r *Report, tier string) {
	r.Rule = "G-cut of every rejection rule of VerifyAttestationSignatures per loop iteration (with jump threading of the membership flag), loop shape, T-eq of the recovery arguments, the single write into the attestation, call-site bindings at both callers, K-agree of the attester registry"
	r.Explanation = "Decided: the verifier's only nil return is reachable only when uint32(len(attestation)) == 65*threshold (exact equality, so longer or shorter attestations are rejected) and threshold != 0, and only from the exit of a loop i = 0, 1, … while i < threshold; " +
		"within one iteration the back edge is reachable only if: Ecrecover(Keccak256(message), attestation[i*65 : i*65+65]) returned no error; (no previous signer, or bytes.Compare(address(previous), address(recovered)) < 0 — strictly increasing, so equal addresses i.e. duplicates are rejected); " +
		"the recovered key equals FromHex(key) for some entry of the whole publicKeys slice (the membership flag is a constant-phi and paths are threaded through it, so checking membership only for some iterations leaves a path); and previous := recovered is stored before the next iteration. " +
		"Each fail arm is an error return; the five rejections are the only ones. The only write into the attestation is sig[64] -= 27 guarded by sig[64] in {27,28} (legacy v values). " +
		"Both callers (ReceiveMessage, ReplaceMessage) pass the message bytes they later parse, the submitted attestation, GetAllAttesters and the stored threshold, and every effect and success return of theirs lies behind a nil verdict. " +
		"The attester registry's getter/setter/deleter agree on the key, so a disabled attester is gone from the set that is passed in. " +
		"Not decided: that Ecrecover returns the signer's key and rejects nothing honest (high-s twins recover the same key and die on the order rule — a fact about go-ethereum), FromHex spelling normalisation, and completeness for honest attestations beyond the structural acceptance of v in {0,1,27,28}."
	r.Assumptions = []string{"go/ssa faithfully represents the module code", "go-ethereum crypto.Ecrecover / Keccak256 / PubkeyToAddress behave as documented (secp256k1 recovery)", "attester strings are compared through common.FromHex"}
	r.Trusted = r.Assumptions

	vas := p.Func("keeper.VerifyAttestationSignatures")
	c := p.fc(r, vas, "VerifyAttestationSignatures", abVAS)
	if c == nil {
		return
	}
	succ := c.successReturns()
	r.check(len(succ) == 1, "G-exact", "G-exact/VAS/single-accept-exit", c.pos(), "one nil return", fmt.Sprintf("%d success-capable returns", len(succ)))
	// 1. length and threshold
	rows := []guardRow{
		{"length==65*threshold", []Atom{A("((p3 * 65) == uint32(len(p1)))")}, succ},
		{"threshold!=0", []Atom{A("!(0 == p3)")}, succ},
		// 2. acceptance only at loop exit i >= threshold
		{"all-threshold-iterations-ran", []Atom{A("!(I < p3)")}, succ},
	}
	rejects := []Atom{A("!((p3 * 65) == uint32(len(p1)))"), A("(0 == p3)")}
	for _, g := range rows {
		c.requireCut("G-cut", g.name, g.guard, g.scope)
	}
	c.requireFailArm("G-fail", "length==65*threshold", rows[0].guard, false)
	c.requireFailArm("G-fail", "threshold!=0", rows[1].guard, false)

	// loop header and body entry
	var header *ssa.If
	for _, ii := range c.ifs {
		if ii.atom.Key == "(I < p3)" {
			header = ii.in
		}
	}
	if header == nil {
		r.fail("loop-shape", "loop-shape/VAS/header", c.pos(), "no loop test `i < signatureThreshold` with i = 0, i+1, … found; conditions present: "+c.atomList())
		return
	}
	hb := header.Block()
	body := hb.Succs[0]
	// back edges: predecessors of the header that are reachable from the body
	fi := p.info(vas)
	var backJumps []ssa.Instruction
	for _, pred := range hb.Preds {
		if fi.reach[body.Index][pred.Index] || pred == body {
			backJumps = append(backJumps, pred.Instrs[len(pred.Instrs)-1])
		}
	}
	r.check(len(backJumps) == 1, "loop-shape", "loop-shape/VAS/single-back-edge", p.instrPos(header), "one back edge", fmt.Sprintf("%d back edges", len(backJumps)))
	if len(backJumps) == 0 {
		return
	}
	// 3. per-iteration rules: from body entry, the back edge is cut by each rule
	iter := []guardRow{
		{"iteration/recovery-ok", []Atom{A("(ECR#1 == nil)")}, backJumps},
		{"iteration/strictly-increasing-signer-address", []Atom{A("(nil == LASTX)"), A("(nil == LASTY)"), A("(bytes.Compare(ADDRLAST,ADDRREC) < 0)"),
			// same rule with the previous signer's address carried from iteration to iteration:
			// first iteration (no previous address / i == 0), or strictly greater
			A("(nil == PREVADDR)"), A("(I < 1)"), A("(0 == I)"), A("(bytes.Compare(PREVADDR,ADDRREC) < 0)")}, backJumps},
		{"iteration/signer-is-enabled-attester", []Atom{A("bytes.Equal(ethcommon.FromHex(p2[#j0].Attester),ECR#0)"), A("bytes.Equal(ethcommon.FromHex(p2[#^i0].Attester),ECR#0)")}, backJumps},
	}
	for _, g := range iter {
		c.requireCutFrom("G-cut", g.name, body, g.guard, g.scope)
		c.requireFailArm("G-fail", g.name, g.guard, false)
	}
	rejects = append(rejects, A("!(ECR#1 == nil)"), A("!(bytes.Compare(ADDRLAST,ADDRREC) < 0)"), A("!(bytes.Compare(PREVADDR,ADDRREC) < 0)"), A("!phi(false|true)"),
		// the membership scan ran to its end without a match (jump-threaded through the `contains` flag)
		A("!(#j0 < len(p2))"), A("!(#^i0 < len(p2))"))
	c.exact("G-exact", rejects)
	// membership ranges over the whole attester slice
	whole := false
	for _, ii := range c.ifs {
		if ii.atom.Key == "(#j0 < len(p2))" || ii.atom.Key == "(#^i0 < len(p2))" {
			whole = true
		}
	}
	r.check(whole, "loop-shape", "loop-shape/VAS/membership-over-whole-set", c.pos(), "membership loop ranges over all of publicKeys", "the membership loop no longer ranges over the whole publicKeys slice")
	// (d) previous := recovered before the back edge. The "previous signer" variable is the
	// local whose X field is tested in the order rule.
	var latest *ssa.Alloc
	for _, ii := range c.ifs {
		if ii.atom.Key != "(nil == LASTX)" {
			continue
		}
		if bo, ok := ii.in.Cond.(*ssa.BinOp); ok {
			for _, op := range []ssa.Value{bo.X, bo.Y} {
				if ld, ok := op.(*ssa.UnOp); ok {
					if fa, ok := ld.X.(*ssa.FieldAddr); ok {
						if a, ok := fa.X.(*ssa.Alloc); ok {
							latest = a
						}
					}
				}
			}
		}
	}
	// the address-carrying form: a phi of the loop header that is nil on entry and the
	// recovered address on every back edge
	var prevPhi *ssa.Phi
	if latest == nil && header != nil {
		for _, in := range header.Block().Instrs {
			phi, ok := in.(*ssa.Phi)
			if !ok || c.term(phi, phi) != "PREVADDR" {
				continue
			}
			okEdges := len(phi.Edges) == len(header.Block().Preds)
			for i, e := range phi.Edges {
				pred := header.Block().Preds[i]
				back := header.Block().Dominates(pred)
				et := c.term(e, pred.Instrs[len(pred.Instrs)-1])
				if (back && et != "ADDRREC") || (!back && et != "nil") {
					okEdges = false
				}
			}
			if okEdges {
				prevPhi = phi
			}
		}
	}
	if prevPhi != nil {
		r.ok("G-mpt", "G-mpt/VAS/previous:=recovered", p.instrPos(prevPhi), "the previous-signer address is nil on entry and the recovered address on every path to the next iteration")
	} else if latest == nil {
		r.undecided("G-mpt", "G-mpt/VAS/previous:=recovered", c.pos(), "cannot identify the previous-signer variable (no `latest.X != nil` test and no loop-carried previous address found)")
	} else {
		var setX, setY []ssa.Instruction
		var other []string
		inLoop := func(b *ssa.BasicBlock) bool {
			return header != nil && header.Block().Dominates(b) && fi.reach[b.Index][header.Block().Index]
		}
		for _, b := range vas.Blocks {
			for _, in := range b.Instrs {
				st, ok := in.(*ssa.Store)
				if !ok {
					continue
				}
				// any other assignment of the record inside the loop (a reset, a different key) makes
				// the next iteration compare against something that is not the previous signer
				if root, isAlloc := rootAlloc(st.Addr); isAlloc && root == latest && inLoop(b) {
					v := c.term(st.Val, st)
					whole := st.Addr == ssa.Value(latest) && strings.Contains(v, "X:RECX") && strings.Contains(v, "Y:RECY")
					field := false
					if fa, ok := st.Addr.(*ssa.FieldAddr); ok && fa.X == ssa.Value(latest) {
						field = (fieldName(fa) == "X" && v == "RECX") || (fieldName(fa) == "Y" && v == "RECY") || (fieldName(fa) == "Curve")
					}
					if !whole && !field {
						other = append(other, p.instrPos(st)+" := "+v)
					}
				}
				if st.Addr == ssa.Value(latest) {
					// whole-struct assignment
					v := c.term(st.Val, st)
					if strings.Contains(v, "X:RECX") && strings.Contains(v, "Y:RECY") {
						setX = append(setX, st)
						setY = append(setY, st)
					}
					continue
				}
				fa, ok := st.Addr.(*ssa.FieldAddr)
				if !ok || fa.X != ssa.Value(latest) {
					continue
				}
				val := c.term(st.Val, st)
				switch fieldName(fa) {
				case "X":
					if val == "RECX" {
						setX = append(setX, st)
					}
				case "Y":
					if val == "RECY" {
						setY = append(setY, st)
					}
				}
			}
		}
		okX := len(setX) > 0 && !fi.blockReachesAvoiding(body, backJumps[0], setX)
		okY := len(setY) > 0 && !fi.blockReachesAvoiding(body, backJumps[0], setY)
		r.check(len(other) == 0, "G-mpt", "G-mpt/VAS/previous-only-recovered", c.pos(), "inside the loop the previous-signer record is assigned nothing but the recovered key",
			fmt.Sprintf("the previous-signer record is also assigned %v inside the loop: a later signature is compared against something other than its predecessor", other))
		r.check(okX && okY, "G-mpt", "G-mpt/VAS/previous:=recovered", p.instrPos(backJumps[0]), "latest.{X,Y} := recovered.{X,Y} on every path to the next iteration",
			"an iteration can reach the next one without recording the recovered key as the previous signer: ordering would compare against a stale/absent key and duplicates pass")
	}

	// T-eq of the recovery arguments
	if ec := c.oneCall("T-eq", "ethcrypto.Ecrecover"); ec != nil {
		a := c.args(ec)
		c.teq("T-eq", "digest-of-the-message", a[0], "DIGEST", p.instrPos(ec))
		c.teq("T-eq", "signature-window", a[1], "SIG", p.instrPos(ec))
	}
	// 5. the only write into the attestation
	var writes []*ssa.Store
	for _, b := range vas.Blocks {
		for _, in := range b.Instrs {
			st, ok := in.(*ssa.Store)
			if !ok {
				continue
			}
			root := st.Addr
			for {
				switch a := root.(type) {
				case *ssa.IndexAddr:
					root = a.X
					continue
				case *ssa.Slice:
					root = a.X
					continue
				case *ssa.FieldAddr:
					root = a.X
					continue
				}
				break
			}
			if prm, ok := root.(*ssa.Parameter); ok && prm == vas.Params[1] {
				writes = append(writes, st)
			}
			if prm, ok := root.(*ssa.Parameter); ok && (prm == vas.Params[0] || prm == vas.Params[2]) {
				r.fail("T-eq", "T-eq/VAS/writes-into-"+prm.Name(), p.instrPos(st), "the verifier writes into "+prm.Name())
			}
		}
	}
	if len(writes) == 1 {
		w := writes[0]
		c.teq("T-eq", "v-normalisation/address", c.term(w.Addr, w), "&V", p.instrPos(w))
		c.teq("T-eq", "v-normalisation/value", c.term(w.Val, w), "(V - 27)", p.instrPos(w))
		c.requireCutFrom("G-cut", "v-normalisation/only-for-27-28", body, []Atom{A("(27 == V)"), A("(28 == V)")}, []ssa.Instruction{w})
	} else {
		r.fail("T-eq", "T-eq/VAS/v-normalisation", c.pos(), fmt.Sprintf("%d writes into the attestation bytes, expected exactly the legacy v normalisation", len(writes)))
	}
	// callers of copy() into params etc.
	for _, b := range vas.Blocks {
		for _, in := range b.Instrs {
			if call, ok := in.(*ssa.Call); ok {
				if bi, ok := call.Call.Value.(*ssa.Builtin); ok && bi.Name() == "copy" {
					r.fail("T-eq", "T-eq/VAS/copy", p.instrPos(call), "the verifier copies bytes: "+c.term(call, call))
				}
			}
		}
	}

	// 6. call sites
	callers := p.callerNames(vas)
	r.check(sameSet(callers, []string{"(keeper.msgServer).ReceiveMessage", "(keeper.msgServer).ReplaceMessage"}), "CG-sites", "CG-sites/VAS", "", fmt.Sprintf("callers = %v", callers), fmt.Sprintf("callers of the verifier are %v", callers))
	if rc := rmCtx(p, r); rc != nil {
		all := union(rc.effectSites(), rc.successReturns())
		rc.requireCut("G-cut", "accept-only-if-verified", []Atom{A("(VAS == nil)")}, all)
		rc.requireCut("G-cut", "attesters-present", []Atom{A("!(0 == len(k.GetAllAttesters(ctx)))")}, all)
		rc.requireCut("G-cut", "threshold-found", []Atom{A("k.GetSignatureThreshold(ctx)#1")}, all)
		if call := rc.oneCall("T-eq", "keeper.VerifyAttestationSignatures"); call != nil {
			a := rc.args(call)
			want := []string{"p2.Message", "p2.Attestation", "k.GetAllAttesters(ctx)", "k.GetSignatureThreshold(ctx)#0.Amount"}
			for i, w := range want {
				rc.teq("T-eq", fmt.Sprintf("VAS.arg%d", i), a[i], w, p.instrPos(call))
			}
		}
		if mp := rc.oneCall("T-eq", "(*types.Message).Parse"); mp != nil {
			rc.teq("T-eq", "parses-the-verified-bytes", rc.args(mp)[1], "p2.Message", p.instrPos(mp))
		}
	}
	if pc := p.fc(r, handlerFn(p, "ReplaceMessage"), "ReplaceMessage", abRPM); pc != nil {
		all := union(pc.effectSites(), pc.successReturns())
		pc.requireCut("G-cut", "accept-only-if-verified", []Atom{A("(VAS == nil)")}, all)
		pc.requireCut("G-cut", "threshold-found", []Atom{A("k.GetSignatureThreshold(ctx)#1")}, all)
		if call := pc.oneCall("T-eq", "keeper.VerifyAttestationSignatures"); call != nil {
			a := pc.args(call)
			want := []string{"p2.OriginalMessage", "p2.OriginalAttestation", "k.GetAllAttesters(ctx)", "k.GetSignatureThreshold(ctx)#0.Amount"}
			for i, w := range want {
				pc.teq("T-eq", fmt.Sprintf("VAS.arg%d", i), a[i], w, p.instrPos(call))
			}
		}
		if mp := pc.oneCall("T-eq", "(*types.Message).Parse"); mp != nil {
			pc.teq("T-eq", "parses-the-verified-bytes", pc.args(mp)[1], "p2.OriginalMessage", p.instrPos(mp))
		}
	}
	// 8. the enabled set
	kAgree(p, r, "attesters", "Attester/value/", map[string]string{
		"GetAttester":    "R types.AttesterKey([]byte(p2))",
		"SetAttester":    "W types.AttesterKey([]byte(p2.Attester))",
		"DeleteAttester": "D types.AttesterKey([]byte(p2))",
	})
	getAllContract(p, r, "GetAllAttesters", "Attester/value/", "")
	foundGetterContract(p, r, "GetSignatureThreshold", "SignatureThreshold/value/", `[]byte("SignatureThreshold/value/")`, "types.SignatureThreshold{}")
	for _, h := range []struct{ name, call, arg string }{{"DisableAttester", "k.DeleteAttester", "p2.Attester"}, {"EnableAttester", "k.SetAttester", "types.Attester{Attester:p2.Attester}"}} {
		if hc := p.fc(r, handlerFn(p, h.name), h.name, nil); hc != nil {
			if call := hc.oneCall("T-eq", h.call); call != nil {
				hc.teq("T-eq", h.call+".arg", hc.args(call)[1], h.arg, p.instrPos(call))
				hc.mustPass("G-mpt", h.call+"-before-success", []ssa.Instruction{call}, hc.successReturns())
			}
		}
	}
}
