package main

import (
	"fmt"
	"go/token"
	"go/types"
	"sort"
	"strings"

	"golang.org/x/tools/go/ssa"
)

// FC is a per-function rule context: the function, its term extractor, the
// abbreviations used when printing/matching terms, and its branch atoms.
type FC struct {
	p    *Prog
	r    *Report
	fn   *ssa.Function
	x    *TX
	name string
	ab   [][2]string
	ifs  []ifInfo
	// virtual body: the NEW helper functions (knownFuncs) reachable from fn through static
	// calls, each with its parameters bound to the argument terms in fn's frame
	vsites []*vsite
	vof    map[*ssa.Function][]*vsite
}

// vsite is one call of a new helper in the virtual body of a rule context.
type vsite struct {
	call   *ssa.Call // the call instruction (in fn or in an enclosing helper)
	anchor *ssa.Call // the call instruction in fn through which the helper runs
	h      *ssa.Function
	hx     *TX
	env    []*Term // helper parameters -> terms in fn's frame
	fv     map[string]*Term // closure handed to a helper: free variables -> terms in fn's frame
	depth  int
}

// fc builds a rule context. ab is an ordered list of (abbreviation, full term)
// pairs applied by textual replacement, longest definitions first.
func (p *Prog) fc(r *Report, fn *ssa.Function, label string, ab [][2]string) *FC {
	c := &FC{p: p, r: r, fn: fn, name: label, ab: ab}
	if fn == nil || fn.Blocks == nil {
		r.fail("anchor", "anchor/"+label, "", "function "+label+" not found or has no body (unresolved anchor)")
		return nil
	}
	c.x = p.tx(fn)
	c.buildVirtualBody()
	spliced := map[*ssa.Function]bool{}
	for _, ii := range p.ifs(fn) {
		if ii.site != nil {
			spliced[ii.site.H] = true
		}
		ii.atom.Key = c.sh(ii.atom.Key)
		if ii.alt != nil {
			a := Atom{Key: c.sh(ii.alt.Key), Pol: ii.alt.Pol}
			ii.alt = &a
		}
		if ctr, n, ok := tableCounter(ii.t); ok {
			ii.tblCtr = ctr
			for k := 0; k < n; k++ {
				a := atomOfTerm(instantiateCounter(ii.t, ctr, k))
				a.Key = c.sh(a.Key)
				ii.insts = append(ii.insts, a)
			}
		}
		c.ifs = append(c.ifs, ii)
	}
	// branches of helpers that are not walked through (procedures, value helpers): listed so
	// that rules can see their atoms; their edges lie outside the walked graph, so matching
	// one never cuts anything
	for _, vs := range c.vsites {
		if spliced[vs.h] {
			continue
		}
		for _, hb := range vs.h.Blocks {
			if len(hb.Instrs) == 0 {
				continue
			}
			if iff, ok := hb.Instrs[len(hb.Instrs)-1].(*ssa.If); ok {
				t := substTerm(markHelperCounters(vs.hx.Of(iff.Cond, iff)), vs.env)
				a := atomOfTerm(t)
				a.Key = c.sh(a.Key)
				c.ifs = append(c.ifs, ifInfo{in: iff, atom: a, site: offGraph})
			}
		}
	}
	return c
}

// offGraph marks branches that belong to a helper the cut engine does not walk through.
var offGraph = &spliceSite{}

func (c *FC) buildVirtualBody() {
	c.vof = map[*ssa.Function][]*vsite{}
	var walk func(fn *ssa.Function, x *TX, env []*Term, anchor *ssa.Call, depth int, stack map[*ssa.Function]bool)
	walk = func(fn *ssa.Function, x *TX, env []*Term, anchor *ssa.Call, depth int, stack map[*ssa.Function]bool) {
		for _, b := range fn.Blocks {
			for _, in := range b.Instrs {
				call, ok := in.(*ssa.Call)
				if !ok {
					continue
				}
				h := call.Call.StaticCallee()
				if !c.p.newHelper(h) || stack[h] || depth >= 3 {
					continue
				}
				hx := c.p.tx(h)
				var henv []*Term
				for _, a := range call.Call.Args {
					t := x.Of(a, call)
					if env != nil {
						t = substTerm(t, env)
					}
					henv = append(henv, t)
				}
				an := anchor
				if an == nil {
					an = call
				}
				vs := &vsite{call: call, anchor: an, h: h, hx: hx, env: henv, depth: depth + 1}
				c.vsites = append(c.vsites, vs)
				c.vof[h] = append(c.vof[h], vs)
				stack[h] = true
				walk(h, hx, henv, an, depth+1, stack)
				delete(stack, h)
			}
		}
		// function values this (helper) frame was handed and calls: closures written in fn,
		// or further new helpers
		if fn != c.fn {
			for _, dc := range c.p.effects(fn).dyn {
				ft := substTerm(markHelperCounters(dc.Fn), env)
				rf, ok := c.p.resolveFuncTerm(ft)
				if !ok || stack[rf.fn] || depth >= 3 {
					continue
				}
				if rf.fn.Parent() == nil && !c.p.newHelper(rf.fn) {
					continue // a known function: judged by its own rules
				}
				var henv []*Term
				henv = append(henv, rf.pre...)
				for _, a := range dc.Args {
					henv = append(henv, substTerm(markHelperCounters(a), env))
				}
				vs := &vsite{call: dc.In, anchor: anchor, h: rf.fn, hx: c.p.tx(rf.fn), env: henv, fv: rf.fv, depth: depth + 1}
				c.vsites = append(c.vsites, vs)
				c.vof[rf.fn] = append(c.vof[rf.fn], vs)
				stack[rf.fn] = true
				walk(rf.fn, vs.hx, henv, anchor, depth+1, stack)
				delete(stack, rf.fn)
			}
		}
	}
	walk(c.fn, c.x, nil, nil, 0, map[*ssa.Function]bool{c.fn: true})
}

// vinstrs: every instruction of the virtual body (fn's own, then each new helper's once).
func (c *FC) vinstrs() []ssa.Instruction {
	var out []ssa.Instruction
	add := func(fn *ssa.Function) {
		for _, b := range fn.Blocks {
			out = append(out, b.Instrs...)
		}
	}
	add(c.fn)
	seen := map[*ssa.Function]bool{}
	for _, vs := range c.vsites {
		if !seen[vs.h] {
			seen[vs.h] = true
			add(vs.h)
		}
	}
	return out
}

// termAt is the term of v at instruction at, in fn's frame, wherever at lives in the
// virtual body. A helper used at several sites with different arguments yields an
// undecided term.
func (c *FC) termAt(v ssa.Value, at ssa.Instruction) *Term {
	owner := at.Parent()
	if owner == c.fn || owner == nil {
		return c.x.Of(v, at)
	}
	sites := c.vof[owner]
	if len(sites) == 0 {
		// closures of fn etc.
		return c.p.tx(owner).Of(v, at)
	}
	var res *Term
	for _, vs := range sites {
		t := vs.hx.Of(v, at)
		if vs.fv == nil {
			t = markHelperCounters(t) // (a closure written in fn has fn's own counters)
		}
		t = substTermFV(t, vs.env, vs.fv)
		if res == nil {
			res = t
		} else if res.String() != t.String() {
			return unknown(fmt.Sprintf("helper %s is used at %d sites with different arguments", funcName(owner), len(sites)))
		}
	}
	return res
}

// anchorOf maps an instruction of the virtual body to the instruction whose reachability
// in fn's (spliced) graph stands for it: itself in fn or in a walked-through helper, else
// the call in fn through which its helper runs.
func (c *FC) anchorOf(in ssa.Instruction) ssa.Instruction {
	owner := in.Parent()
	if owner == c.fn || owner == nil {
		return in
	}
	for _, sp := range c.p.splices(c.fn) {
		if sp.H == owner {
			return in
		}
	}
	if sites := c.vof[owner]; len(sites) > 0 {
		return sites[0].anchor
	}
	return in
}

// siteInFn: the instruction of fn itself through which `in` executes (in, or fn's call of
// the helper that contains it).
func (c *FC) siteInFn(in ssa.Instruction) ssa.Instruction {
	owner := in.Parent()
	if owner == c.fn || owner == nil {
		return in
	}
	if sites := c.vof[owner]; len(sites) > 0 {
		return sites[0].anchor
	}
	return in
}

func (c *FC) anchors(ins []ssa.Instruction) []ssa.Instruction {
	var out []ssa.Instruction
	seen := map[ssa.Instruction]bool{}
	for _, in := range ins {
		owner := in.Parent()
		if owner != c.fn && owner != nil && len(c.vof[owner]) > 1 {
			// a helper used at several sites: every site stands for the instruction
			for _, vs := range c.vof[owner] {
				if !seen[vs.anchor] {
					seen[vs.anchor] = true
					out = append(out, vs.anchor)
				}
			}
			continue
		}
		a := c.anchorOf(in)
		if !seen[a] {
			seen[a] = true
			out = append(out, a)
		}
	}
	return out
}

// viaAnchors: like anchors, for must-pass obligations: an instruction inside a helper
// stands for "the call executes it" only if every normal return of each enclosing helper
// lies behind it.
func (c *FC) viaAnchors(ins []ssa.Instruction) []ssa.Instruction {
	var out []ssa.Instruction
	byOwner := map[*ssa.Function][]ssa.Instruction{}
	var owners []*ssa.Function
	for _, in := range ins {
		owner := in.Parent()
		if owner == c.fn || owner == nil {
			out = append(out, in)
			continue
		}
		if _, ok := byOwner[owner]; !ok {
			owners = append(owners, owner)
		}
		byOwner[owner] = append(byOwner[owner], in)
	}
	// the witnesses inside one helper count jointly: every normal return of the helper lies
	// behind one of them (`if c { A() } else { B() }` for "A or B happens"); then the call of
	// the helper is the witness one level up, and so on to fn
	for _, owner := range owners {
		sites := c.vof[owner]
		if len(sites) == 0 {
			continue
		}
		ok := true
		cur := byOwner[owner]
		for level := sites[0]; level != nil; {
			fi := c.p.info(level.h)
			for _, r := range allReturns(level.h) {
				if c.p.exitKind(level.hx, r) == "error" {
					continue
				}
				if fi.entryReachesAvoiding(r, cur) {
					ok = false
				}
			}
			cur = []ssa.Instruction{level.call}
			var up *vsite
			if level.call.Parent() != c.fn {
				if ups := c.vof[level.call.Parent()]; len(ups) > 0 {
					up = ups[0]
				}
			}
			level = up
		}
		if ok {
			out = append(out, sites[0].anchor)
		}
	}
	return out
}

func (c *FC) sh(s string) string {
	for _, a := range c.ab {
		if i := strings.Index(a[1], "§"); i >= 0 {
			s = replaceBalanced(s, a[1][:i], a[1][i+len("§"):], a[0])
			continue
		}
		s = strings.ReplaceAll(s, a[1], a[0])
	}
	return s
}

// replaceBalanced replaces every occurrence of prefix <balanced text> suffix by name.
// prefix must end with an opening bracket and suffix start with its closing bracket:
// "(*types.Message).Parse(§)" abbreviates that call whatever its arguments are (the
// arguments are then judged by a separate obligation where a property depends on them).
func replaceBalanced(s, prefix, suffix, name string) string {
	var out strings.Builder
	for {
		i := strings.Index(s, prefix)
		if i < 0 {
			out.WriteString(s)
			return out.String()
		}
		// prefix must not be preceded by an identifier character (avoid matching inside a longer name)
		depth := 1
		j := i + len(prefix)
		inStr := false
		for j < len(s) && depth > 0 {
			ch := s[j]
			if inStr {
				if ch == '\\' {
					j++
				} else if ch == '"' {
					inStr = false
				}
				j++
				continue
			}
			switch ch {
			case '"':
				inStr = true
			case '(', '[', '{':
				depth++
			case ')', ']', '}':
				depth--
			}
			if depth > 0 {
				j++
			}
		}
		if depth != 0 || !strings.HasPrefix(s[j:], suffix) {
			out.WriteString(s[:i+len(prefix)])
			s = s[i+len(prefix):]
			continue
		}
		out.WriteString(s[:i])
		out.WriteString(name)
		s = s[j+len(suffix):]
	}
}

func (c *FC) term(v ssa.Value, at ssa.Instruction) string {
	return c.sh(c.termAt(v, at).String())
}

func (c *FC) pos() string { return c.p.pos(c.fn.Pos()) }

// callName gives the printed name of a call's callee as it appears in terms.
func (c *FC) callName(call *ssa.Call) string {
	if owner := call.Parent(); owner != c.fn && owner != nil {
		if call.Call.IsInvoke() {
			// the receiver of an interface call is a value: print it in fn's frame
			return c.sh(c.termAt(call.Call.Value, call).String() + "." + call.Call.Method.Name())
		}
		return c.sh(callNameOf(c.p.tx(owner), call))
	}
	return c.sh(callNameOf(c.x, call))
}

func callNameOf(x *TX, call *ssa.Call) string {
	common := call.Call
	if common.IsInvoke() {
		return x.Of(common.Value, call).String() + "." + common.Method.Name()
	}
	if b, ok := common.Value.(*ssa.Builtin); ok {
		return b.Name()
	}
	callee := common.StaticCallee()
	if callee == nil {
		return "dyn"
	}
	if callee.Signature.Recv() != nil && len(common.Args) > 0 && isKeeperType(common.Args[0].Type()) && knownFuncs[funcName(callee)] {
		return "k." + callee.Name()
	}
	return funcName(callee)
}

// calls returns the call instructions in fn whose printed callee name equals name.
func (c *FC) calls(name string) []*ssa.Call {
	var out []*ssa.Call
	for _, b := range c.fn.Blocks {
		for _, in := range b.Instrs {
			if call, ok := in.(*ssa.Call); ok && c.callName(call) == name {
				out = append(out, call)
			}
		}
	}
	// the virtual body: calls made by new helpers on fn's behalf
	seen := map[*ssa.Function]bool{}
	for _, vs := range c.vsites {
		if seen[vs.h] {
			continue
		}
		seen[vs.h] = true
		for _, b := range vs.h.Blocks {
			for _, in := range b.Instrs {
				if call, ok := in.(*ssa.Call); ok && c.callName(call) == name {
					out = append(out, call)
				}
			}
		}
	}
	return out
}

// oneCall returns the single call to name, recording a failure otherwise.
func (c *FC) oneCall(rule, name string) *ssa.Call {
	cs := c.calls(name)
	if len(cs) != 1 {
		c.r.fail(rule, fmt.Sprintf("%s/%s/call-site/%s", rule, c.name, name), c.pos(),
			fmt.Sprintf("expected exactly one call to %s in %s, found %d", name, c.name, len(cs)))
		return nil
	}
	return cs[0]
}

// plainCallTerm: the call's own term (callee + argument terms) in fn's frame.
func (c *FC) plainCallTerm(call *ssa.Call) *Term { return c.termAt(call, call) }

// args returns the printed argument terms of a call (receiver excluded for k.* and invoke).
func (c *FC) args(call *ssa.Call) []string {
	t := c.plainCallTerm(call)
	var out []string
	as := t.A
	if t.Op == "invoke" {
		as = t.A[1:]
	}
	for _, a := range as {
		out = append(out, c.sh(a.String()))
	}
	return out
}

// argTerm returns the (unabbreviated) term of argument i as printed (see args).
func (c *FC) argTerms(call *ssa.Call) []*Term {
	t := c.plainCallTerm(call)
	if t.Op == "invoke" {
		return t.A[1:]
	}
	return t.A
}

// teq records a term-equality obligation.
func (c *FC) teq(rule, what, got, want, pos string) bool {
	key := fmt.Sprintf("%s/%s/%s", rule, c.name, what)
	if got == want {
		c.r.ok(rule, key, pos, what+" = "+want)
		return true
	}
	if strings.Contains(got, "?") {
		c.r.undecided(rule, key, pos, fmt.Sprintf("%s: provenance undecided: got %s, want %s", what, got, want))
		return false
	}
	c.r.fail(rule, key, pos, fmt.Sprintf("%s: got %s, want %s", what, got, want))
	return false
}

// teqOneOf: got must equal one of the wanted alternatives.
func (c *FC) teqOneOf(rule, what, got string, wants []string, pos string) bool {
	for _, w := range wants {
		if got == w {
			return c.teq(rule, what, got, w, pos)
		}
	}
	return c.teq(rule, what, got, strings.Join(wants, " or "), pos)
}

// litFields splits a literal term (possibly behind &) into field->printed term.
func (c *FC) litFields(t *Term) (string, map[string]string, bool) {
	if t.Op == "addr" {
		t = t.A[0]
	}
	if t.Op != "lit" {
		return "", nil, false
	}
	m := map[string]string{}
	for i, f := range t.F {
		m[f] = c.sh(t.A[i].String())
	}
	return t.S, m, true
}

// checkLit compares every field of a literal with the expected table (fields
// absent from want must be absent/zero in got).
func (c *FC) checkLit(rule, what string, t *Term, wantType string, want map[string]string, pos string) {
	typ, got, ok := c.litFields(t)
	if !ok {
		st := c.sh(t.String())
		key := fmt.Sprintf("%s/%s/%s", rule, c.name, what)
		if strings.Contains(st, "?") {
			c.r.undecided(rule, key, pos, what+" is not a resolvable literal: "+st)
		} else {
			c.r.fail(rule, key, pos, what+" is not a literal of "+wantType+": "+st)
		}
		return
	}
	c.teq(rule, what+".type", typ, wantType, pos)
	var names []string
	for f := range want {
		names = append(names, f)
	}
	for f := range got {
		if _, ok := want[f]; !ok {
			names = append(names, f)
		}
	}
	sort.Strings(names)
	for _, f := range names {
		g, w := got[f], want[f]
		if g == "" {
			g = "<zero>"
		}
		if w == "" {
			w = "<zero>"
		}
		c.teq(rule, what+"."+f, g, w, pos)
	}
}

// ---------------------------------------------------------------------------
// guards

func (c *FC) instrs(calls []*ssa.Call) []ssa.Instruction {
	var out []ssa.Instruction
	for _, x := range calls {
		out = append(out, x)
	}
	return out
}

// sres is one success-capable exit of fn with the result terms it returns there.
type sres struct {
	ret  *ssa.Return
	vals []*Term
	at   ssa.Instruction
}

// successResults lists the exits that may report success, a phi-merged return split by
// predecessor (each with the values that predecessor contributes).
func (c *FC) successResults() []sres {
	var out []sres
	for _, ret := range allReturns(c.fn) {
		if mes := c.p.mergedExits(c.x, ret); mes != nil {
			for _, me := range mes {
				if me.kind == "error" {
					continue
				}
				sr := sres{ret: ret, at: me.at}
				for _, v := range me.vals {
					sr.vals = append(sr.vals, c.x.Of(v, me.pred.Instrs[len(me.pred.Instrs)-1]))
				}
				out = append(out, sr)
			}
			continue
		}
		if c.p.exitKind(c.x, ret) == "error" {
			continue
		}
		sr := sres{ret: ret, at: ret}
		for _, v := range ret.Results {
			sr.vals = append(sr.vals, c.x.Of(v, ret))
		}
		out = append(out, sr)
	}
	return out
}

// successReturns lists the returns that may report success.
func (c *FC) successReturns() []ssa.Instruction {
	_, s := c.p.returnsOf(c.fn)
	return s
}

// effectSites lists instructions in fn at which a state, ledger or event effect
// happens (directly or through module callees).
func (c *FC) effectSites() []ssa.Instruction {
	return c.expandSpliced(c.p.effectSitesOf(c.fn), func(h *ssa.Function) []ssa.Instruction { return c.p.effectSitesOf(h) })
}

// ledgerSites: bank / fiat-token-factory calls that move value (reads excluded).
func (c *FC) ledgerSites() []ssa.Instruction {
	return c.expandSpliced(c.p.ledgerSitesOf(c.fn), func(h *ssa.Function) []ssa.Instruction { return c.p.ledgerSitesOf(h) })
}

// expandSpliced: a site that is the call of a helper the cut engine walks through is
// replaced by the helper's own sites (which the walk reaches exactly when they execute);
// other sites stand as they are.
func (c *FC) expandSpliced(sites []ssa.Instruction, inner func(h *ssa.Function) []ssa.Instruction) []ssa.Instruction {
	var out []ssa.Instruction
	seen := map[ssa.Instruction]bool{}
	all := c.p.splices(c.fn)
	var expand func(sites []ssa.Instruction, ctx *spliceSite, depth int)
	expand = func(sites []ssa.Instruction, ctx *spliceSite, depth int) {
		for _, in := range sites {
			expanded := false
			if call, ok := in.(*ssa.Call); ok && depth < 4 {
				for _, sp := range all {
					if sp.Call == call && sp.parent == ctx {
						expand(inner(sp.H), sp, depth+1)
						expanded = true
					}
				}
			}
			if !expanded && !seen[in] {
				seen[in] = true
				out = append(out, in)
			}
		}
	}
	expand(sites, nil, 0)
	return out
}

// effectSitesOf lists instructions in fn at which a state, ledger or event effect happens
// (directly or through module callees).
func (p *Prog) effectSitesOf(fn *ssa.Function) []ssa.Instruction {
	var out []ssa.Instruction
	for _, in := range p.effectSitesIn(fn, "W", "D", "EVENT") {
		out = append(out, in)
	}
	seen := map[ssa.Instruction]bool{}
	for _, in := range out {
		seen[in] = true
	}
	for _, in := range p.ledgerSitesOf(fn) {
		if !seen[in] {
			seen[in] = true
			out = append(out, in)
		}
	}
	return out
}

func (p *Prog) ledgerSitesOf(fn *ssa.Function) []ssa.Instruction {
	var out []ssa.Instruction
	s := p.effects(fn)
	mutating := func(e Effect) bool {
		return e.Kind == "LEDGER" && !strings.HasSuffix(e.Region, ".GetMintingDenom") && !strings.HasSuffix(e.Region, ".GetBalance")
	}
	for _, e := range s.direct {
		if mutating(e) {
			out = append(out, e.In)
		}
	}
	for _, ce := range s.calls {
		if ce.In == nil {
			continue
		}
		for _, e := range p.closure(ce.Callee) {
			if mutating(e) {
				out = append(out, ce.In)
				break
			}
		}
	}
	return out
}

// requireCut: every target is cut from the function entry by guard (a disjunction of atoms).
func (c *FC) requireCut(rule, what string, guard []Atom, targets []ssa.Instruction) bool {
	key := fmt.Sprintf("%s/%s/%s", rule, c.name, what)
	if len(targets) == 0 {
		c.r.fail(rule, key, c.pos(), "no target instructions found for this guard (vacuous)")
		return false
	}
	targets = c.anchors(targets)
	res := cutQuery(c.fn, c.ifs, guard, targets)
	return c.recordCut(rule, key, guard, res, len(targets))
}

func (c *FC) requireCutFrom(rule, what string, start *ssa.BasicBlock, guard []Atom, targets []ssa.Instruction) bool {
	key := fmt.Sprintf("%s/%s/%s", rule, c.name, what)
	if len(targets) == 0 {
		c.r.fail(rule, key, c.pos(), "no target instructions found for this guard (vacuous)")
		return false
	}
	targets = c.anchors(targets)
	res := cutFromQuery(c.fn, c.ifs, start, guard, targets)
	return c.recordCut(rule, key, guard, res, len(targets))
}

// requireEqual: every target lies behind `x == n` — tested as one equality, or as the two
// one-sided tests `!(x < n)` and `x < n+1` (`if x < n || x > n { reject }`). Records the
// cut and fail-arm obligations and returns the rejection atoms for the exactness rule.
func (c *FC) requireEqual(rule, what, x string, n int, targets []ssa.Instruction) []Atom {
	eq := A(fmt.Sprintf("(%d == %s)", n, x))
	for _, ii := range c.ifs {
		if ii.atom.Key == eq.Key {
			c.requireCut(rule, what, []Atom{eq}, targets)
			c.requireFailArm(rule, what, []Atom{eq}, false)
			return []Atom{{Key: eq.Key, Pol: false}}
		}
	}
	lower := A(fmt.Sprintf("!(%s < %d)", x, n))
	upper := A(fmt.Sprintf("(%s < %d)", x, n+1))
	seenLower := false
	for _, ii := range c.ifs {
		if ii.atom.Key == lower.Key {
			seenLower = true
		}
	}
	if !seenLower {
		// neither form present: report against the canonical one
		c.requireCut(rule, what, []Atom{eq}, targets)
		return []Atom{{Key: eq.Key, Pol: false}}
	}
	c.requireCut(rule, what+"/not-shorter", []Atom{lower}, targets)
	c.requireFailArm(rule, what+"/not-shorter", []Atom{lower}, false)
	c.requireCut(rule, what+"/not-longer", []Atom{upper}, targets)
	c.requireFailArm(rule, what+"/not-longer", []Atom{upper}, false)
	return []Atom{{Key: lower.Key, Pol: !lower.Pol}, {Key: upper.Key, Pol: !upper.Pol}}
}

func guardString(guard []Atom) string {
	var parts []string
	for _, g := range guard {
		parts = append(parts, g.String())
	}
	return strings.Join(parts, "  OR  ")
}

func (c *FC) recordCut(rule, key string, guard []Atom, res CutResult, nTargets int) bool {
	gs := guardString(guard)
	if res.Holds {
		c.r.ok(rule, key, c.pos(), fmt.Sprintf("guard [%s] (%d branch sites) cuts all %d targets from entry", gs, res.Matched, nTargets))
		return true
	}
	if res.Matched == 0 {
		// distinguish "condition obscured" from "condition absent": both fail
		ob := c.r.fail(rule, key, c.pos(), fmt.Sprintf("no branch in %s tests [%s]; conditions present: %s", c.name, gs, c.atomList()))
		_ = ob
		return false
	}
	ob := c.r.fail(rule, key, c.p.instrPos(res.Leak), fmt.Sprintf("target at %s is reachable without establishing [%s]", c.p.instrPos(res.Leak), gs))
	ob.Path = c.p.pathString(res.Path)
	return false
}

func (c *FC) atomList() string {
	var parts []string
	for _, ii := range c.ifs {
		parts = append(parts, ii.atom.String())
	}
	return strings.Join(parts, " ; ")
}

// requireFailArm: the non-pass arms of guard reach only error exits and no effect site.
func (c *FC) requireFailArm(rule, what string, guard []Atom, allowPanic bool) bool {
	key := fmt.Sprintf("%s/%s/%s", rule, c.name, what)
	ok, why := c.p.failArms(c.fn, c.ifs, guard, c.effectSites(), allowPanic)
	return c.r.check(ok, rule, key, c.pos(), "fail arm of ["+guardString(guard)+"] reaches only error exits and no effect", why)
}

// exact: every reject edge of fn must match one of the allowed reject atoms.
func (c *FC) exact(rule string, allowed []Atom) {
	c.errSources(rule)
	n := 0
	for _, re := range c.p.rejectEdges(c.fn, c.ifs) {
		n++
		matched := false
		for _, a := range allowed {
			if matchKey(a.Key, re.RejectWhen.Key) && a.Pol == re.RejectWhen.Pol {
				matched = true
			}
		}
		key := fmt.Sprintf("%s/%s/reject/%s", rule, c.name, re.RejectWhen.String())
		if !matched && c.isRequiredStepError(re.If.in) {
			c.r.ok(rule, key, c.p.instrPos(re.If.in), "propagates the error of a call that every success path passes (not a new precondition)")
			continue
		}
		if matched {
			c.r.ok(rule, key, c.p.instrPos(re.If.in), "rejection condition is in the documented table")
		} else {
			c.r.fail(rule, key, c.p.instrPos(re.If.in), fmt.Sprintf("%s rejects when %s, which is not a documented precondition (unclassified reject edge)", c.name, re.RejectWhen))
		}
	}
}

// mustPass: every path from entry to each target passes through one of the via instructions.
func (c *FC) mustPass(rule, what string, via []ssa.Instruction, targets []ssa.Instruction) bool {
	key := fmt.Sprintf("%s/%s/%s", rule, c.name, what)
	if len(via) == 0 {
		c.r.fail(rule, key, c.pos(), "required call is absent")
		return false
	}
	// a target and witnesses that live in the same new helper: decided inside that helper
	// (from its entry, the target cannot be reached around the witnesses)
	rawVia := via
	var rest []ssa.Instruction
	for _, t := range targets {
		owner := t.Parent()
		if owner != c.fn && owner != nil {
			var local []ssa.Instruction
			for _, v := range rawVia {
				if v.Parent() == owner {
					local = append(local, v)
				}
			}
			if len(local) > 0 && !c.p.info(owner).entryReachesAvoiding(t, local) {
				continue
			}
		}
		rest = append(rest, t)
	}
	via = c.viaAnchors(via)
	// (the remaining questions run on fn's own graph: every target is represented by its site in fn)
	var own []ssa.Instruction
	for _, t := range rest {
		own = append(own, c.siteInFn(t))
	}
	nTargets := len(targets)
	targets = own
	if len(via) == 0 && len(targets) > 0 {
		c.r.fail(rule, key, c.pos(), "required call sits in a helper that can return normally without making it")
		return false
	}
	// reachability over (block, position): forbid executing any via instruction
	fi := c.p.info(c.fn)
	for _, t := range targets {
		if fi.entryReachesAvoiding(t, via) {
			c.r.fail(rule, key, c.p.instrPos(t), fmt.Sprintf("return/effect at %s is reachable without passing %s", c.p.instrPos(t), what))
			return false
		}
	}
	if len(via) == 0 {
		via = rawVia
	}
	targets = make([]ssa.Instruction, nTargets)
	c.r.ok(rule, key, c.p.instrPos(via[0]), fmt.Sprintf("all %d targets lie behind %s", len(targets), what))
	return true
}

// onCycle: is the instruction's block on a CFG cycle?
func (c *FC) onCycle(in ssa.Instruction) bool {
	// in a loop of the function that contains it, or reached through a call that is
	cur := in
	for depth := 0; depth < 5; depth++ {
		owner := cur.Parent()
		if owner == nil {
			return false
		}
		fi := c.p.info(owner)
		b := cur.Block()
		if fi.reach[b.Index][b.Index] {
			return true
		}
		if owner == c.fn {
			return false
		}
		sites := c.vof[owner]
		if len(sites) == 0 {
			return false
		}
		if len(sites) > 1 {
			return true // executed once per site: more than once
		}
		cur = sites[0].call
	}
	return true
}

func sortStrings(s []string) { sort.Strings(s) }

func fieldName(fa *ssa.FieldAddr) string {
	st := fa.X.Type().Underlying().(*types.Pointer).Elem().Underlying().(*types.Struct)
	return st.Field(fa.Field).Name()
}

// isRequiredStepError: the branch tests `err ==/!= nil` where err is the error
// result of a call that every success path of the function passes through. Such a
// rejection only propagates the failure of a step the function performs anyway.
func (c *FC) isRequiredStepError(iff *ssa.If) bool {
	bo, ok := iff.Cond.(*ssa.BinOp)
	if !ok || (bo.Op != token.EQL && bo.Op != token.NEQ) {
		return false
	}
	var ev ssa.Value
	if k, ok := bo.Y.(*ssa.Const); ok && k.Value == nil {
		ev = bo.X
	} else if k, ok := bo.X.(*ssa.Const); ok && k.Value == nil {
		ev = bo.Y
	}
	if ev == nil || !isErrorType(ev.Type()) {
		return false
	}
	var call *ssa.Call
	switch v := ev.(type) {
	case *ssa.Call:
		call = v
	case *ssa.Extract:
		call, _ = v.Tuple.(*ssa.Call)
	}
	if call == nil {
		return false
	}
	// only steps that DO something (store, ledger, event — directly or through module callees):
	// a pure validation call that can fail is a precondition and must be in the table
	effectful := false
	for _, e := range c.effectSites() {
		if e == ssa.Instruction(call) {
			effectful = true
		}
	}
	if !effectful {
		return false
	}
	succ := c.successReturns()
	if len(succ) == 0 {
		return false
	}
	fi := c.p.info(c.fn)
	for _, s := range succ {
		if fi.entryReachesAvoiding(c.siteInFn(s), []ssa.Instruction{call}) {
			return false
		}
	}
	return true
}

// ctxDiscipline: in every module function reachable from the given roots, each
// context-typed argument of each call is the transaction's own context (the ctx
// parameter or its Unwrap/Wrap image) — never a CacheContext branch, a context with a
// replaced event manager, or a fresh background context. Without this, an effect that
// the other rules see "on every success path" could land in a branch that is discarded.
func ctxDiscipline(p *Prog, r *Report, roots map[string]*ssa.Function) {
	reach := p.reachableFrom(roots)
	var fns []*ssa.Function
	for fn := range reach {
		fns = append(fns, fn)
	}
	sort.Slice(fns, func(i, j int) bool { return funcName(fns[i]) < funcName(fns[j]) })
	n, bad := 0, 0
	for _, fn := range fns {
		x := p.tx(fn)
		for _, b := range fn.Blocks {
			for _, in := range b.Instrs {
				var common *ssa.CallCommon
				switch c := in.(type) {
				case *ssa.Call:
					common = &c.Call
				case *ssa.Defer:
					common = &c.Call
				case *ssa.Go:
					common = &c.Call
				}
				if common == nil {
					continue
				}
				vals := append([]ssa.Value(nil), common.Args...)
				if common.IsInvoke() {
					vals = append(vals, common.Value)
				}
				for _, a := range vals {
					T := a.Type()
					if mi, ok := a.(*ssa.MakeInterface); ok {
						T = mi.X.Type()
					}
					if !isCtxType(T) {
						continue
					}
					n++
					t := x.Of(a, in)
					if t.Op != "ctx" {
						bad++
						callee := "call"
						if call, ok := in.(*ssa.Call); ok {
							callee = callNameOf(x, call)
						}
						r.fail("ctx-discipline", fmt.Sprintf("ctx-discipline/%s/%s", funcName(fn), callee), p.instrPos(in),
							fmt.Sprintf("%s passes a derived context %s to %s: effects made through it are not effects on the transaction's context", funcName(fn), t, callee))
					}
				}
			}
		}
	}
	if bad == 0 {
		r.ok("ctx-discipline", "ctx-discipline/all", "", fmt.Sprintf("%d context arguments in %d reachable functions are all the transaction's own context", n, len(fns)))
	}
	r.floor("context-arguments", n, 3)
}

func txRoots(p *Prog, names ...string) map[string]*ssa.Function {
	out := map[string]*ssa.Function{}
	for _, n := range names {
		out[n] = handlerFn(p, n)
	}
	return out
}

func allTxRoots(p *Prog) map[string]*ssa.Function {
	out := map[string]*ssa.Function{}
	for _, h := range p.txHandlers() {
		out[h.Name] = h.Fn
	}
	return out
}
