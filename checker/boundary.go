package main

import (
	"fmt"
	"go/types"
	"sort"
	"strings"

	"golang.org/x/tools/go/ssa"
)

// boundary.go: what module code hands to code outside the module. The effect analysis follows
// static calls inside the module and the frozen dependency interfaces; code outside is judged
// by what it is given. So every call that leaves the module is inspected for three things it
// could be given that would let it act on chain state, or run module code, without a call edge
// the rules can see:
//   B1  a capability (context, keeper, store, store service, event manager, bank / token
//       factory keeper, the module itself) — directly, inside a struct, behind a pointer or
//       wrapped in an interface: only the reference tree's (callee, capability) pairs;
//   B2  a function value (closure, method value, named function): only the reference tree's
//       callback takers (query.Paginate; the CLI is not consensus code);
//   B3  a value of a module-declared type as an interface: its hand-written methods that are
//       not among the known functions must be free of effects (fmt calls String/Error/Format,
//       sort calls Less/Swap, encoders call Marshal…).

func (p *Prog) isCapabilityType(T types.Type, depth int) (bool, string) {
	if depth > 4 {
		return false, ""
	}
	if isCtxType(T) || isKeeperType(T) || isKVStoreType(T) || isNamed(T, pkgCoreStore, "KVStoreService") || isNamed(T, pkgSDK, "EventManagerI") || isNamed(T, pkgSDK, "EventManager") ||
		isNamed(T, modPath+"/x/cctp/types", "BankKeeper") || isNamed(T, modPath+"/x/cctp/types", "FiatTokenfactoryKeeper") || isNamed(T, modPath+"/x/cctp", "AppModule") ||
		isNamed(T, "cosmossdk.io/store/prefix", "Store") {
		return true, typeStr(T)
	}
	switch u := T.Underlying().(type) {
	case *types.Pointer:
		return p.isCapabilityType(u.Elem(), depth+1)
	case *types.Struct:
		for i := 0; i < u.NumFields(); i++ {
			if ok, w := p.isCapabilityType(u.Field(i).Type(), depth+1); ok {
				return true, w
			}
		}
	case *types.Slice:
		return p.isCapabilityType(u.Elem(), depth+1)
	case *types.Array:
		return p.isCapabilityType(u.Elem(), depth+1)
	case *types.Map:
		return p.isCapabilityType(u.Elem(), depth+1)
	}
	return false, ""
}

// handedValues: the values a call argument gives the callee (interface wrappers and variadic
// packs opened).
func handedValues(a ssa.Value) []ssa.Value {
	switch o := a.(type) {
	case *ssa.MakeInterface:
		return handedValues(o.X)
	case *ssa.ChangeInterface:
		return handedValues(o.X)
	case *ssa.Slice:
		if al, ok := o.X.(*ssa.Alloc); ok {
			if arr, ok := al.Type().(*types.Pointer).Elem().Underlying().(*types.Array); ok {
				if _, isIface := arr.Elem().Underlying().(*types.Interface); isIface {
					var out []ssa.Value
					for _, r := range *al.Referrers() {
						if ia, ok := r.(*ssa.IndexAddr); ok {
							for _, ir := range *ia.Referrers() {
								if st, ok := ir.(*ssa.Store); ok && st.Addr == ssa.Value(ia) {
									out = append(out, handedValues(st.Val)...)
								}
							}
						}
					}
					return out
				}
			}
		}
	}
	return []ssa.Value{a}
}

type boundaryCall struct {
	fn     *ssa.Function
	in     ssa.CallInstruction
	callee string
	caps   []string
	funcs  []string
	types_ []*types.Named
	ifaces []types.Type // the interface type each of types_ was converted to
	fnVals []*ssa.Function
}

var pureCallbackTakers = map[string]bool{"slices.ContainsFunc": true, "slices.IndexFunc": true}

// implicitMethods: method names that code outside the module discovers by interface assertion
// on a value of unknown type (fmt, errors, sort, encoding/*, io, the SDK's message validation).
var implicitMethods = map[string]bool{
	"String": true, "Error": true, "Format": true, "GoString": true, "Unwrap": true, "Is": true, "As": true,
	"MarshalJSON": true, "UnmarshalJSON": true, "MarshalText": true, "UnmarshalText": true, "MarshalBinary": true, "UnmarshalBinary": true,
	"Marshal": true, "MarshalTo": true, "MarshalToSizedBuffer": true, "Unmarshal": true, "Size": true, "Reset": true, "ProtoMessage": true, "XXX_Size": true, "XXX_Marshal": true,
	"XXX_Unmarshal": true, "XXX_Merge": true, "XXX_DiscardUnknown": true, "Descriptor": true,
	"MarshalAmino": true, "UnmarshalAmino": true, "MarshalAminoJSON": true, "UnmarshalAminoJSON": true, "MarshalYAML": true, "UnmarshalYAML": true,
	"Len": true, "Less": true, "Swap": true, "Push": true, "Pop": true, "Write": true, "Read": true, "Close": true, "WriteTo": true, "ReadFrom": true,
	"ValidateBasic": true, "Validate": true, "GetSigners": true, "GetSignBytes": true, "Route": true, "Type": true, "LogValue": true,
}

func (p *Prog) boundaryCalls() []boundaryCall { return p.boundaryCallsOf(p.Funcs) }

func (p *Prog) boundaryCallsOf(fns []*ssa.Function) []boundaryCall {
	var out []boundaryCall
	for _, fn := range fns {
		top := fn
		for top.Parent() != nil {
			top = top.Parent()
		}
		if top.Pkg != nil && top.Pkg.Pkg.Path() == modulePkgs[3] {
			continue // CLI
		}
		for _, b := range fn.Blocks {
			for _, in := range b.Instrs {
				ci, ok := in.(ssa.CallInstruction)
				if !ok {
					continue
				}
				c := ci.Common()
				if _, isB := c.Value.(*ssa.Builtin); isB {
					continue
				}
				label := ""
				vals := append([]ssa.Value(nil), c.Args...)
				if c.IsInvoke() {
					label = "invoke " + invokeName(c)
					// (the receiver is the callee itself, not something it is handed)
				} else {
					callee := c.StaticCallee()
					if callee == nil {
						continue // function values: resolved or reported by the resolution rule
					}
					if p.inModuleCode(callee) {
						continue
					}
					label = funcName(callee)
					if callee.Pkg != nil && p.isModulePkgPath(callee.Pkg.Pkg.Path()) {
						label = "generated " + label
					}
				}
				bc := boundaryCall{fn: fn, in: ci, callee: label}
				for _, a := range vals {
					for _, v := range handedValues(a) {
						if ok, w := p.isCapabilityType(v.Type(), 0); ok {
							bc.caps = append(bc.caps, w)
						}
						switch fv := v.(type) {
						case *ssa.MakeClosure:
							bc.funcs = append(bc.funcs, funcName(fv.Fn.(*ssa.Function)))
							bc.fnVals = append(bc.fnVals, fv.Fn.(*ssa.Function))
						case *ssa.Function:
							bc.funcs = append(bc.funcs, funcName(fv))
							bc.fnVals = append(bc.fnVals, fv)
						default:
							if _, isSig := v.Type().Underlying().(*types.Signature); isSig {
								if cst, ok := v.(*ssa.Const); !ok || cst.Value != nil {
									bc.funcs = append(bc.funcs, "a function value")
									bc.fnVals = append(bc.fnVals, nil)
								}
							}
						}
						if _, isMI := a.(*ssa.MakeInterface); isMI || v != a {
							if n := p.moduleNamed(v.Type()); n != nil {
								bc.types_ = append(bc.types_, n)
								var it types.Type
								if mi, ok := a.(*ssa.MakeInterface); ok {
									it = mi.Type()
								}
								bc.ifaces = append(bc.ifaces, it)
							}
						}
					}
				}
				if len(bc.caps)+len(bc.funcs)+len(bc.types_) > 0 {
					out = append(out, bc)
				}
			}
		}
	}
	return out
}

// capabilityCallees: the reference tree's callees outside the module that receive a capability.
var capabilityCallees = map[string]string{
	"invoke KVStoreService.OpenKVStore":                      "opens the module's store (effects judged at the store primitives)",
	"runtime.KVStoreAdapter":                                 "adapter constructor",
	"prefix.NewStore":                                        "prefix store constructor (region recognised)",
	"query.Paginate":                                         "PAGE effect",
	"sdk.UnwrapSDKContext":                                   "pure",
	"sdk.WrapSDKContext":                                     "pure",
	"(sdk.Context).EventManager":                             "accessor",
	"invoke BankKeeper.SendCoinsFromAccountToModule":         "LEDGER effect",
	"invoke FiatTokenfactoryKeeper.Burn":                     "LEDGER effect",
	"invoke FiatTokenfactoryKeeper.Mint":                     "LEDGER effect",
	"invoke FiatTokenfactoryKeeper.GetMintingDenom":          "LEDGER read",
	"generated types.RegisterQueryServer":                    "service registration (wiring rule)",
	"generated types.RegisterQueryHandlerClient":             "gateway registration (client side)",
	"invoke EventManagerI.EmitTypedEvent":                    "EVENT effect",
	"generated types.NewQueryClient":                         "gateway registration (client side)",
	"(prefix.Store).Set":                                     "store primitive (W effect)",
	"(prefix.Store).Get":                                     "store primitive (R effect)",
	"(prefix.Store).Has":                                     "store primitive (R effect)",
	"(prefix.Store).Delete":                                  "store primitive (D effect)",
	"(prefix.Store).Iterator":                                "store primitive (ITER effect)",
	"(prefix.Store).ReverseIterator":                         "store primitive (ITER effect)",
	"invoke KVStore.Set":                                     "store primitive (W effect)",
	"invoke KVStore.Get":                                     "store primitive (R effect)",
	"invoke KVStore.Has":                                     "store primitive (R effect)",
	"invoke KVStore.Delete":                                  "store primitive (D effect)",
	"invoke KVStore.Iterator":                                "store primitive (ITER effect)",
	"invoke BankKeeper.SendCoinsFromModuleToAccount":         "LEDGER effect",
}

var callbackCallees = map[string]string{
	"query.Paginate":         "the page callback (C19 judges its body; effects attributed to the handler)",
	"core/appmodule.Provide": "depinject provider registration at init",
}

func boundaryObligation(p *Prog, r *Report) {
	bad := 0
	n := 0
	seen := map[string]int{}
	fail := func(bc boundaryCall, kind, what string) {
		bad++
		key := fmt.Sprintf("boundary/%s/%s/%s", funcName(bc.fn), bc.callee, kind)
		seen[key]++
		if seen[key] > 1 {
			key += fmt.Sprintf("#%d", seen[key])
		}
		r.fail("boundary", key, p.instrPos(bc.in), funcName(bc.fn)+" hands "+what+" to "+bc.callee+", which the rule tables do not know as a taker of it: code outside the module could act on chain state, or run module code, where no rule looks")
	}
	for _, bc := range p.boundaryCalls() {
		n++
		if len(bc.caps) > 0 {
			if _, ok := capabilityCallees[bc.callee]; !ok {
				fail(bc, "capability", "a capability ("+strings.Join(dedup(bc.caps), ", ")+")")
			}
		}
		if len(bc.funcs) > 0 {
			if _, ok := callbackCallees[bc.callee]; !ok {
				// pure searches call their predicate and nothing else: an effect-free predicate is harmless
				okPure := pureCallbackTakers[strings.SplitN(bc.callee, "[", 2)[0]]
				if okPure {
					for _, v := range bc.fnVals {
						if v == nil || p.effectFree(v) != "" {
							okPure = false
						}
					}
				}
				if !okPure {
					fail(bc, "callback", "module code as a value ("+strings.Join(dedup(bc.funcs), ", ")+")")
				}
			}
		}
		for ti, T := range bc.types_ {
			for _, m := range p.handWrittenMethods(T) {
				if knownFuncs[funcName(m)] {
					continue
				}
				// the callee can reach the methods of the interface it is handed, and those it may
				// look for by assertion; other methods of the type are not callable from outside
				reachable := implicitMethods[m.Name()]
				if ti < len(bc.ifaces) && bc.ifaces[ti] != nil {
					if it, ok := bc.ifaces[ti].Underlying().(*types.Interface); ok {
						for i := 0; i < it.NumMethods(); i++ {
							if it.Method(i).Name() == m.Name() {
								reachable = true
							}
						}
					}
				}
				if !reachable {
					continue
				}
				if why := p.effectFree(m); why != "" {
					fail(bc, "method/"+funcName(m), "a "+typeStr(T)+" whose new method "+funcName(m)+" "+why)
				}
			}
		}
	}
	if p.ControlSSA != nil {
		got := false
		for _, bc := range p.boundaryCallsOf(p.ControlFuncs) {
			if bc.fn.Name() == "Handoff" && len(bc.caps) > 0 && capabilityCallees[bc.callee] == "" {
				got = true
			}
		}
		r.check(got, "positive-control", "positive-control/boundary", "", "the boundary inventory reports the fixture's keeper handed to fmt.Sprint", "the boundary inventory misses the fixture's capability hand-off")
	}
	if bad == 0 {
		r.ok("boundary", "boundary/all", "", fmt.Sprintf("%d calls leave the module with a capability, a function value or a module-typed interface value; all among the reference tree's %d capability takers and %d callback takers, and no new method of a handed type has an effect", n, len(capabilityCallees), len(callbackCallees)))
	}
	r.floor("boundary-calls", n, 60)
}

func dedup(xs []string) []string {
	m := map[string]bool{}
	var out []string
	for _, x := range xs {
		if !m[x] {
			m[x] = true
			out = append(out, x)
		}
	}
	sort.Strings(out)
	return out
}

// handWrittenMethods: the methods of T and *T that are declared in module code proper.
func (p *Prog) handWrittenMethods(T *types.Named) []*ssa.Function {
	var out []*ssa.Function
	for _, recv := range []types.Type{T, types.NewPointer(T)} {
		ms := p.SSA.MethodSets.MethodSet(recv)
		for i := 0; i < ms.Len(); i++ {
			fn := p.SSA.MethodValue(ms.At(i))
			if fn == nil {
				continue
			}
			if fn.Synthetic != "" {
				// wrapper: promoted / pointer-receiver wrapper — find the declared function
				if obj, ok := ms.At(i).Obj().(*types.Func); ok {
					if d := p.SSA.FuncValue(obj); d != nil {
						fn = d
					}
				}
			}
			if p.inModuleCode(fn) {
				dup := false
				for _, o := range out {
					if o == fn {
						dup = true
					}
				}
				if !dup {
					out = append(out, fn)
				}
			}
		}
	}
	return out
}

// effectFree: "" when the function (with what it calls) reads and writes no chain state, emits
// nothing, and calls nothing unresolved.
func (p *Prog) effectFree(fn *ssa.Function) string {
	for _, e := range p.closure(fn) {
		switch e.Kind {
		case "EXTERNAL":
			if e.Key != nil {
				return "hands a capability to " + e.Val.S
			}
		case "PANIC":
		default:
			return fmt.Sprintf("has the effect %s %s", e.Kind, e.Region)
		}
	}
	return ""
}

func dumpBoundary(p *Prog) {
	for _, bc := range p.boundaryCalls() {
		var ts []string
		for _, t := range bc.types_ {
			ts = append(ts, typeStr(t))
		}
		fmt.Printf("%-50s %-50s caps=%v funcs=%v types=%v\n", funcName(bc.fn), bc.callee, dedup(bc.caps), bc.funcs, dedup(ts))
	}
}

// generatedObligation: what the exempt protoc outputs may contain. They are not analysed by
// the hand-written-code rules, so they must not be a way back into hand-written module code
// or to chain state: no static call from generated code into hand-written module code, the
// protoc header is present, and the service handlers invoke exactly the interface method
// they are named after.
func generatedObligation(p *Prog, r *Report) {
	var bad []string
	nFn := 0
	for _, path := range modulePkgs {
		sp := p.SPkgs[path]
		pk := p.Pkgs[path]
		for i, f := range pk.Syntax {
			name := pk.CompiledGoFiles[i]
			if !isGeneratedName(name) {
				continue
			}
			hdr := false
			for _, cg := range f.Comments {
				for _, c := range cg.List {
					if strings.HasPrefix(c.Text, "// Code generated by protoc-gen-g") && c.Pos() < f.Package {
						hdr = true
					}
				}
			}
			if !hdr {
				bad = append(bad, name+": no protoc header before the package clause")
			}
		}
		var fns []*ssa.Function
		var add func(fn *ssa.Function)
		addSeen := map[*ssa.Function]bool{}
		add = func(fn *ssa.Function) {
			if fn == nil || addSeen[fn] || fn.Blocks == nil || fn.Synthetic != "" {
				return
			}
			addSeen[fn] = true
			if pos := fn.Pos(); pos.IsValid() && isGeneratedName(p.Fset.Position(pos).Filename) {
				fns = append(fns, fn)
				for _, an := range fn.AnonFuncs {
					add(an)
				}
			}
		}
		for _, m := range sp.Members {
			switch m := m.(type) {
			case *ssa.Function:
				add(m)
			case *ssa.Type:
				for _, T := range []types.Type{m.Type(), types.NewPointer(m.Type())} {
					ms := p.SSA.MethodSets.MethodSet(T)
					for i := 0; i < ms.Len(); i++ {
						add(p.SSA.MethodValue(ms.At(i)))
					}
				}
			}
		}
		for _, fn := range fns {
			nFn++
			for _, b := range fn.Blocks {
				for _, in := range b.Instrs {
					ci, ok := in.(ssa.CallInstruction)
					if !ok {
						continue
					}
					c := ci.Common()
					if c.IsInvoke() {
						// _Msg_X_Handler / _Query_X_Handler (and their closures) invoke X on the server
						top := fn
						for top.Parent() != nil {
							top = top.Parent()
						}
						for _, svc := range []string{"_Msg_", "_Query_"} {
							if strings.HasPrefix(top.Name(), svc) && strings.HasSuffix(top.Name(), "_Handler") {
								want := strings.TrimSuffix(strings.TrimPrefix(top.Name(), svc), "_Handler")
								T := c.Value.Type().String()
								if (strings.HasSuffix(T, "types.MsgServer") || strings.HasSuffix(T, "types.QueryServer")) && c.Method.Name() != want {
									bad = append(bad, fmt.Sprintf("%s invokes %s, not %s", funcName(top), c.Method.Name(), want))
								}
							}
						}
						continue
					}
					if callee := c.StaticCallee(); callee != nil && p.inModuleCode(callee) {
						bad = append(bad, fmt.Sprintf("%s calls hand-written %s at %s", funcName(fn), funcName(callee), p.instrPos(in)))
					}
				}
			}
		}
	}
	r.check(len(bad) == 0, "loader", "loader/generated-code", "", fmt.Sprintf("%d generated files (frozen names, x/cctp/types only), %d functions: protoc header present, no call into hand-written module code, each service handler invokes its own method", len(generatedFiles), nFn),
		fmt.Sprintf("the files exempt as protoc output contain something protoc does not emit: %v", bad))
	r.floor("generated-functions", nFn, 900)
}

// externalCallees: every function outside the module that consensus module code calls statically.
func (p *Prog) externalCallees() map[string]ssa.Instruction {
	out := map[string]ssa.Instruction{}
	for _, fn := range p.Funcs {
		top := fn
		for top.Parent() != nil {
			top = top.Parent()
		}
		if top.Pkg != nil && top.Pkg.Pkg.Path() == modulePkgs[3] {
			continue
		}
		for _, b := range fn.Blocks {
			for _, in := range b.Instrs {
				var ops []*ssa.Value
				for _, op := range in.Operands(ops) {
					f, ok := (*op).(*ssa.Function)
					if !ok || f == nil {
						continue
					}
					if p.inModuleCode(f) || (f.Pkg != nil && p.isModulePkgPath(f.Pkg.Pkg.Path())) {
						continue
					}
					if f.Parent() != nil {
						continue
					}
					if o := f.Origin(); o != nil {
						f = o
					}
					if f.Synthetic != "" && f.Object() != nil && f.Object().Pkg() != nil && p.isModulePkgPath(f.Object().Pkg().Path()) {
						continue // bound-method / thunk wrapper of a module function
					}
					n := funcName(f)
					if _, dup := out[n]; !dup {
						out[n] = in
					}
				}
			}
		}
	}
	return out
}

func dumpExternals(p *Prog) {
	ex := p.externalCallees()
	var names []string
	for n := range ex {
		names = append(names, n)
	}
	sort.Strings(names)
	for _, n := range names {
		fmt.Printf("%q: true, // %s\n", n, p.instrPos(ex[n]))
	}
}

// knownExternalFuncs: the functions outside the module that consensus module code may call
// (or take as values): the reference tree's, plus a few obviously pure, total siblings a
// refactoring reaches for. For each, determinism (no clock, randomness, process state, map
// order) and totality on the arguments the module gives it were judged once, by reading; the
// panicking constructors among them (NewCoin, NewCoins, FillBytes, PutUintNN/UintNN,
// PubkeyToAddress, NewIntFromBigInt…) have their own precondition rules in C20. A callee that
// is not listed is of unknown behaviour in both respects — a wrapper around randomness or the
// wall clock in a dependency, a function that panics on some scalar — and fails closed.
var knownExternalFuncs = map[string]bool{
	"(*codec.LegacyAmino).RegisterConcrete": true, "(*codec.LegacyAmino).Seal": true, "(*math/big.Int).FillBytes": true, "(*math/big.Int).SetBytes": true,
	"(*sdk.Config).GetBech32AccountAddrPrefix": true, "(encoding/binary.bigEndian).PutUint32": true, "(encoding/binary.bigEndian).PutUint64": true,
	"(encoding/binary.bigEndian).Uint32": true, "(encoding/binary.bigEndian).Uint64": true, "(ethcommon.Address).Bytes": true,
	"(prefix.Store).Delete": true, "(prefix.Store).Get": true, "(prefix.Store).Iterator": true, "(prefix.Store).Set": true, "(prefix.Store).Has": true,
	"(sdk.AccAddress).String": true, "(sdk.Context).EventManager": true, "(sdkmath.Int).BigInt": true, "(sdkmath.Int).GT": true, "(sdkmath.Int).IsNil": true,
	"(sdkmath.Int).IsPositive": true, "auth/types.NewModuleAddress": true, "bech32.ConvertAndEncode": true, "bytes.Compare": true, "bytes.Equal": true,
	"codec.NewLegacyAmino": true, "codec.NewProtoCodec": true, "codec/types.NewInterfaceRegistry": true, "context.Background": true,
	"core/appmodule.Provide": true, "core/appmodule.Register": true, "encoding/hex.DecodeString": true, "encoding/hex.EncodeToString": true,
	"ethcommon.FromHex": true, "ethcrypto.Ecrecover": true, "ethcrypto.Keccak256": true, "ethcrypto.PubkeyToAddress": true, "fmt.Errorf": true, "fmt.Sprintf": true,
	"grpc-gateway/runtime.AssumeColonVerbOpt": true, "grpc-gateway/runtime.ForwardResponseMessage": true, "grpc-gateway/runtime.MustPattern": true,
	"grpc-gateway/runtime.NewPattern": true, "prefix.NewStore": true, "query.Paginate": true, "runtime.KVStoreAdapter": true, "sdk.AccAddressFromBech32": true,
	"sdk.Bech32ifyAddressBytes": true, "sdk.GetConfig": true, "sdk.NewCoin": true, "sdk.NewCoins": true, "sdk.UnwrapSDKContext": true, "sdk.ValidateDenom": true,
	"sdkerrors.Register": true, "sdkerrors.Wrap": true, "sdkerrors.Wrapf": true, "sdkmath.NewIntFromBigInt": true, "status.Error": true, "strings.EqualFold": true,
	"strings.ToLower": true, "strings.TrimPrefix": true, "types/msgservice.RegisterMsgServiceDesc": true,
	// siblings (pure, total, deterministic)
	"bytes.HasPrefix": true, "bytes.HasSuffix": true, "bytes.Contains": true, "bytes.TrimLeft": true, "bytes.TrimRight": true, "bytes.TrimPrefix": true,
	"strings.HasPrefix": true, "strings.HasSuffix": true, "strings.Contains": true, "strings.TrimSpace": true, "strings.ToUpper": true, "strings.TrimSuffix": true, "strings.Compare": true,
	"slices.Contains": true, "slices.ContainsFunc": true, "slices.IndexFunc": true, "slices.Index": true, "slices.Equal": true,
	"(encoding/binary.bigEndian).Uint16": true, "(encoding/binary.bigEndian).PutUint16": true, "(encoding/binary.bigEndian).AppendUint16": true,
	"(encoding/binary.bigEndian).AppendUint32": true, "(encoding/binary.bigEndian).AppendUint64": true,
	"(sdkmath.Int).LT": true, "(sdkmath.Int).GTE": true, "(sdkmath.Int).LTE": true, "(sdkmath.Int).Equal": true, "(sdkmath.Int).IsZero": true, "(sdkmath.Int).IsNegative": true, "(sdkmath.Int).String": true,
	"(sdkmath.Int).Sign": true, "sdkmath.ZeroInt": true, "sdkmath.OneInt": true,
	"ethcommon.BytesToAddress": true, "errors.New": true, "errors.Is": true, "sdk.WrapSDKContext": true, "status.Errorf": true, "fmt.Sprint": true,
	"(*sdkerrors.Error).Wrap": true, "(*sdkerrors.Error).Wrapf": true, "(*sdkerrors.Error).Error": true, "(*sdkerrors.Error).Is": true, "sdkerrors.IsOf": true,
	"strconv.Itoa": true, "strconv.FormatUint": true, "strconv.FormatInt": true, "strconv.FormatBool": true, "strconv.Quote": true,
	"(*math/big.Int).Bytes": true, "(*math/big.Int).Cmp": true, "(*math/big.Int).Sign": true, "(*math/big.Int).BitLen": true, "(*math/big.Int).IsUint64": true,
	"(ethcommon.Address).Hex": true, "(ethcommon.Address).String": true, "(ethcommon.Address).Cmp": true, "ethcommon.HexToAddress": true,
	"(sdk.AccAddress).Bytes": true, "(sdk.AccAddress).Equals": true, "(sdk.AccAddress).Empty": true, "(sdk.Coin).String": true, "(sdk.Coins).String": true,
}

// initOnlyExternals: registration functions that mutate process-global registries and panic
// on a second registration: package initialisation only.
var initOnlyExternals = map[string]bool{
	"sdkerrors.Register": true, "(*codec.LegacyAmino).Seal": true, "codec.NewLegacyAmino": true, "codec.NewProtoCodec": true, "codec/types.NewInterfaceRegistry": true,
	"core/appmodule.Register": true, "core/appmodule.Provide": true, "grpc-gateway/runtime.MustPattern": true, "grpc-gateway/runtime.NewPattern": true,
	"auth/types.NewModuleAddress": true,
}

func initOnlyObligation(p *Prog, r *Report, rule string) {
	var bad []string
	n := 0
	for _, fn := range p.Funcs {
		top := fn
		for top.Parent() != nil {
			top = top.Parent()
		}
		isInit := top.Name() == "init" || strings.HasPrefix(top.Name(), "init#")
		for _, b := range fn.Blocks {
			for _, in := range b.Instrs {
				var ops []*ssa.Value
				for _, op := range in.Operands(ops) {
					if f, ok := (*op).(*ssa.Function); ok && f != nil && initOnlyExternals[funcName(f)] {
						n++
						if !isInit {
							bad = append(bad, fmt.Sprintf("%s uses %s at %s", funcName(fn), funcName(f), p.instrPos(in)))
						}
					}
				}
			}
		}
	}
	r.check(len(bad) == 0, rule, rule+"/registration-at-init-only", "", fmt.Sprintf("%d uses of process-global registration functions, all in package initialisers", n),
		fmt.Sprintf("a registration function that writes a process-global registry (and panics on a duplicate) is used at run time: %v", bad))
}

// printsAddress: would fmt's default verbs print a memory address for a value of this type?
func printsAddress(T types.Type, top bool, depth int) bool {
	if depth > 4 {
		return false
	}
	if n, ok := T.(*types.Named); ok {
		// a type with its own String/Error/Format method prints what that says
		for _, recv := range []types.Type{n, types.NewPointer(n)} {
			ms := types.NewMethodSet(recv)
			for _, m := range []string{"String", "Error", "Format"} {
				if ms.Lookup(nil, m) != nil {
					return false
				}
			}
		}
	}
	switch u := T.Underlying().(type) {
	case *types.Pointer:
		if ms := types.NewMethodSet(T); ms.Lookup(nil, "String") != nil || ms.Lookup(nil, "Error") != nil || ms.Lookup(nil, "Format") != nil {
			return false
		}
		if _, isStruct := u.Elem().Underlying().(*types.Struct); isStruct && top {
			return printsAddress(u.Elem(), false, depth+1) // &{…}: the fields decide
		}
		return true
	case *types.Signature, *types.Chan:
		return true
	case *types.Basic:
		return u.Kind() == types.UnsafePointer || u.Kind() == types.Uintptr
	case *types.Struct:
		for i := 0; i < u.NumFields(); i++ {
			if printsAddress(u.Field(i).Type(), false, depth+1) {
				return true
			}
		}
	case *types.Slice:
		return printsAddress(u.Elem(), false, depth+1)
	case *types.Array:
		return printsAddress(u.Elem(), false, depth+1)
	case *types.Map:
		return printsAddress(u.Elem(), false, depth+1) || printsAddress(u.Key(), false, depth+1)
	}
	return false
}

// formatObligation: no formatting / logging call is handed a value that prints as an address.
func formatObligation(p *Prog, r *Report, rule string) {
	var bad []string
	n := 0
	for _, fn := range p.Funcs {
		top := fn
		for top.Parent() != nil {
			top = top.Parent()
		}
		if top.Pkg != nil && top.Pkg.Pkg.Path() == modulePkgs[3] {
			continue
		}
		for _, b := range fn.Blocks {
			for _, in := range b.Instrs {
				ci, ok := in.(ssa.CallInstruction)
				if !ok {
					continue
				}
				c := ci.Common()
				name := ""
				if c.IsInvoke() {
					name = invokeName(c)
					if !strings.HasPrefix(name, "Logger.") {
						continue
					}
				} else if f := c.StaticCallee(); f != nil {
					name = funcName(f)
					if !formatters[name] && name != "status.Errorf" {
						continue
					}
				} else {
					continue
				}
				n++
				for _, a := range c.Args {
					for _, v := range handedValues(a) {
						if _, isIface := v.Type().Underlying().(*types.Interface); isIface {
							continue // an error or message value of unknown dynamic type
						}
						if printsAddress(v.Type(), true, 0) {
							bad = append(bad, fmt.Sprintf("%s hands a %s to %s at %s", funcName(fn), typeStr(v.Type()), name, p.instrPos(in)))
						}
					}
				}
			}
		}
	}
	r.check(len(bad) == 0, rule, rule+"/no-address-in-formatted-text", "", fmt.Sprintf("%d formatting / logging calls: no argument prints as a memory address", n),
		fmt.Sprintf("a value that fmt prints as a memory address (pointer, func, chan) is formatted: the text differs between runs: %v", bad))
}

func externalAllowObligation(p *Prog, r *Report, rule, concern string) {
	ex := p.externalCallees()
	var names []string
	for n := range ex {
		names = append(names, n)
	}
	sort.Strings(names)
	bad, n := 0, 0
	for _, name := range names {
		if strings.HasSuffix(name, ".init") {
			continue // package initialisers of imports, called from the synthetic init
		}
		n++
		if knownExternalFuncs[name] {
			continue
		}
		bad++
		r.fail(rule, rule+"/external-callee/"+name, p.instrPos(ex[name]), fmt.Sprintf("consensus module code calls %s, which is not among the %d external functions whose behaviour was judged: %s", name, len(knownExternalFuncs), concern))
	}
	if bad == 0 {
		r.ok(rule, rule+"/external-callees", "", fmt.Sprintf("%d distinct functions outside the module are called from consensus code, all in the judged table", n))
	}
	r.floor("external-callees", n, 50)
}
