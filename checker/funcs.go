package main

import (
	"golang.org/x/tools/go/ssa"
)

// curProg is the program being analysed (set by Load); term-level application of a
// function value needs the callee's body.
var curProg *Prog

var applying = map[*ssa.Function]bool{}

// applyFuncTerm: the result term of calling the function value ft with args, when ft
// denotes a module function or closure with a straight-line, effect-free body and a
// single result (a key function, a field selector, …). nil when it does not apply: the
// dyncall term then stays as it is (and matches nothing).
func applyFuncTerm(ft *Term, args []*Term) *Term {
	p := curProg
	if p == nil {
		return nil
	}
	rf, ok := p.resolveFuncTerm(ft)
	if !ok || applying[rf.fn] || !p.inModuleCode(rf.fn) {
		return nil
	}
	fn := rf.fn
	if len(fn.Blocks) != 1 {
		return nil
	}
	var ret *ssa.Return
	for _, in := range fn.Blocks[0].Instrs {
		switch in := in.(type) {
		case *ssa.Return:
			ret = in
		case *ssa.Store:
			if _, local := rootAlloc(in.Addr); !local {
				return nil
			}
		case *ssa.MapUpdate, *ssa.Go, *ssa.Defer, *ssa.Send, *ssa.Panic:
			return nil
		}
	}
	if ret == nil || len(ret.Results) != 1 {
		return nil
	}
	applying[fn] = true
	defer delete(applying, fn)
	for _, e := range p.closure(fn) {
		switch e.Kind {
		case "EXTERNAL", "R", "PANIC":
		default:
			return nil
		}
	}
	env := append(append([]*Term(nil), rf.pre...), args...)
	t := substTermFV(p.tx(fn).Of(ret.Results[0], ret), env, rf.fv)
	if t.hasUnknown() {
		return nil
	}
	return t
}
