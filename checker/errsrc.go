package main

import (
	"fmt"
	"go/types"
	"sort"

	"golang.org/x/tools/go/ssa"
)

// errsrc.go: "succeeds exactly when …" is decided on branches (reject edges). A rejection
// can also be carried by a value: the error an external function returns, handed back
// unbranched (`return resp, err`) or through a new helper. So every function with an
// exactness obligation is also asked where its errors can come from: each call in its
// virtual body (itself plus the new helpers it reaches) that yields an error must be a known
// module function, a dependency method, or one of the reference tree's external
// error-returning functions (whose failure conditions the tables name as atoms). A new
// source of errors is a new way to be rejected.

func hasErrorResult(sig *types.Signature) bool {
	res := sig.Results()
	for i := 0; i < res.Len(); i++ {
		if isErrorType(res.At(i).Type()) {
			return true
		}
	}
	return false
}

// errSourceLabel: "" when the call cannot introduce an error from outside the module.
func (p *Prog) errSourceLabel(c *ssa.CallCommon) string {
	if _, isB := c.Value.(*ssa.Builtin); isB {
		return ""
	}
	if !hasErrorResult(c.Signature()) {
		return ""
	}
	if c.IsInvoke() {
		return "invoke " + invokeName(c)
	}
	callee := c.StaticCallee()
	if callee == nil {
		return "a function value"
	}
	if p.inModuleCode(callee) {
		return "" // known function: its own rules; new helper: its body is walked
	}
	if errConstructors[funcName(callee)] {
		return "" // builds an error value; whether it is returned is a matter of branches
	}
	return funcName(callee)
}

var errConstructors = map[string]bool{
	"fmt.Errorf": true, "errors.New": true, "sdkerrors.Wrap": true, "sdkerrors.Wrapf": true, "status.Error": true, "status.Errorf": true,
	"(*sdkerrors.Error).Wrap": true, "(*sdkerrors.Error).Wrapf": true, "sdkerrors.Register": true, "sdkerrors.New": true,
	"(*status.Status).Err": true, "errors.Join": true,
}

// extErrSources: the reference tree's sources of errors outside the module (consensus code).
var extErrSources = map[string]string{
	"invoke EventManagerI.EmitTypedEvent":            "event emission (E-prop: propagated)",
	"invoke BankKeeper.SendCoinsFromAccountToModule": "debit (required step)",
	"invoke FiatTokenfactoryKeeper.Burn":             "burn (required step)",
	"invoke FiatTokenfactoryKeeper.Mint":             "mint (required step)",
	"invoke BinaryCodec.Unmarshal":                   "decode of a stored value",
	"invoke JSONCodec.UnmarshalJSON":                 "genesis decode",
	"sdk.AccAddressFromBech32":                       "address syntax (table atom)",
	"sdk.Bech32ifyAddressBytes":                      "address rendering (table atom)",
	"bech32.ConvertAndEncode":                        "address rendering (table atom)",
	"ethcrypto.Ecrecover":                            "signature recovery (table atom)",
	"ethcrypto.UnmarshalPubkey":                      "signature recovery (table atom)",
	"ethcrypto.SigToPub":                             "signature recovery (table atom)",
	"encoding/hex.DecodeString":                      "attester key syntax (table atom)",
	"invoke Iterator.Close":                          "iterator release (deferred in the getters)",
	"grpc-gateway/runtime.NewPattern":                "gateway patterns (generated initialiser)",
	"query.Paginate":                                 "pagination (PAGE effect; C19)",
	"sdk.ValidateDenom":                              "denom syntax (table atom)",
	"generated types.RegisterQueryHandlerClient":     "gateway registration (client side)",
	"types.RegisterQueryHandlerClient":               "gateway registration (client side)",
}

func (p *Prog) errSourcesOf(fns []*ssa.Function) map[string]ssa.Instruction {
	out := map[string]ssa.Instruction{}
	for _, fn := range fns {
		for _, b := range fn.Blocks {
			for _, in := range b.Instrs {
				ci, ok := in.(ssa.CallInstruction)
				if !ok {
					continue
				}
				if l := p.errSourceLabel(ci.Common()); l != "" {
					if _, dup := out[l]; !dup {
						out[l] = in
					}
				}
			}
		}
	}
	return out
}

func (c *FC) errSources(rule string) {
	fns := []*ssa.Function{c.fn}
	seen := map[*ssa.Function]bool{c.fn: true}
	var addAnon func(fn *ssa.Function)
	addAnon = func(fn *ssa.Function) {
		for _, an := range fn.AnonFuncs {
			if !seen[an] {
				seen[an] = true
				fns = append(fns, an)
				addAnon(an)
			}
		}
	}
	addAnon(c.fn)
	for _, lc := range c.p.liftedCalls(c.fn) {
		if c.p.newHelper(lc.callee) && !seen[lc.callee] {
			seen[lc.callee] = true
			fns = append(fns, lc.callee)
			addAnon(lc.callee)
		}
	}
	srcs := c.p.errSourcesOf(fns)
	var names []string
	for n := range srcs {
		names = append(names, n)
	}
	sort.Strings(names)
	bad := 0
	for _, n := range names {
		if _, ok := extErrSources[n]; ok {
			continue
		}
		bad++
		c.r.fail(rule, fmt.Sprintf("%s/%s/error-source/%s", rule, c.name, n), c.p.instrPos(srcs[n]),
			fmt.Sprintf("%s can now fail with an error produced by %s, which is not one of the reference tree's error sources: a rejection carried by a value (no branch owns it) that the documented preconditions do not name", c.name, n))
	}
	if bad == 0 {
		c.r.ok(rule, fmt.Sprintf("%s/%s/error-sources", rule, c.name), c.pos(), fmt.Sprintf("%d functions in the virtual body; errors originate only from known module functions, dependencies and the %d tabled external sources (%d in use)", len(fns), len(extErrSources), len(names)))
	}
}

func dumpErrSources(p *Prog) {
	var fns []*ssa.Function
	for _, fn := range p.Funcs {
		top := fn
		for top.Parent() != nil {
			top = top.Parent()
		}
		if top.Pkg != nil && top.Pkg.Pkg.Path() == modulePkgs[3] {
			continue
		}
		fns = append(fns, fn)
	}
	srcs := p.errSourcesOf(fns)
	var names []string
	for n := range srcs {
		names = append(names, n)
	}
	sort.Strings(names)
	for _, n := range names {
		fmt.Printf("%-55s %v  @%s\n", n, extErrSources[n] != "", p.instrPos(srcs[n]))
	}
}

// accessorObligation: the keeper's setters and deleters are used by the handler rules as
// single steps ("every success path passes the call SetUsedNonce(ctx, N)"); what the callee then
// does is its contract, stated over its effect summary — which says what it may write, not that
// it does. So every known keeper accessor that writes or deletes must do so unconditionally:
// each of its write/delete sites (own or through new helpers, at their anchors) lies on every
// path from its entry to each of its returns. (All properties: each relies on some setter.)
func accessorObligation(p *Prog, r *Report) {
	n, bad := 0, 0
	for _, fn := range p.Funcs {
		if fn.Parent() != nil || !knownFuncs[funcName(fn)] {
			continue
		}
		recv := fn.Signature.Recv()
		if recv == nil || !isNamed(recv.Type(), modPath+"/x/cctp/keeper", "Keeper") {
			continue // handlers (msgServer) and free functions have path rules of their own
		}
		if p.isQueryHandler(fn) {
			continue
		}
		var sites []ssa.Instruction
		for _, e := range p.own(fn) {
			if e.Kind == "W" || e.Kind == "D" {
				sites = append(sites, e.In)
			}
		}
		if len(sites) == 0 {
			continue
		}
		n++
		fi := p.info(fn)
		for _, s := range sites {
			if s == nil || s.Parent() != fn {
				continue
			}
			for _, ret := range allReturns(fn) {
				if fi.entryReachesAvoiding(ret, []ssa.Instruction{s}) {
					bad++
					r.fail("accessor", "accessor/"+funcName(fn)+"/unconditional-write", p.instrPos(s), funcName(fn)+" can return (at "+p.instrPos(ret)+") without performing its write/delete at "+p.instrPos(s)+": the handlers' rules treat a call of this accessor as the write itself")
					break
				}
			}
		}
	}
	if bad == 0 {
		r.ok("accessor", "accessor/unconditional-writes", "", fmt.Sprintf("%d keeper setters/deleters: every write/delete site lies on every path to every return", n))
	}
	r.floor("writing-accessors", n, 20)
}

func (p *Prog) isQueryHandler(fn *ssa.Function) bool {
	for _, q := range p.queryHandlers() {
		if q.Fn == fn {
			return true
		}
	}
	return false
}
