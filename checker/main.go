package main

import (
	"flag"
	"fmt"
	"os"
	"strings"
	"time"

	"golang.org/x/tools/go/ssa"
)

func main() {
	repo := flag.String("repo", "/repo", "path of the noble-cctp tree to analyse")
	prop := flag.String("prop", "", "property id (C01..C20), or 'all'")
	tier := flag.String("tier", "quick", "quick|thorough")
	evdir := flag.String("evidence", "/verif/evidence", "evidence directory")
	replaydir := flag.String("replaydir", "/verif/replay", "replay directory")
	known := flag.String("known", "/verif/known_findings.json", "known findings file (read only)")
	dump := flag.String("dump", "", "dump inventory for functions whose name contains this string ('*' for all)")
	replay := flag.String("replay", "", "replay file: re-evaluate the obligations listed in it")
	quiet := flag.Bool("q", false, "less output")
	flag.Parse()

	start := time.Now()
	p, err := Load(*repo)
	if err != nil {
		if *prop != "" {
			failClosed(*prop, *tier, *evdir, *replaydir, err, start)
			os.Exit(1)
		}
		fmt.Fprintln(os.Stderr, "load failed:", err)
		os.Exit(2)
	}
	p.LoadS = time.Since(start).Seconds()
	if *dump == "funcs" {
		for _, fn := range p.Funcs {
			fmt.Println(funcName(fn))
		}
		return
	}
	if *dump == "memwrites" {
		dumpMemWrites(p)
		return
	}
	if *dump == "converted" {
		dumpConverted(p)
		return
	}
	if *dump == "boundary" {
		dumpBoundary(p)
		return
	}
	if *dump == "errsources" {
		dumpErrSources(p)
		return
	}
	if *dump == "externals" {
		dumpExternals(p)
		return
	}
	if *dump == "panics" {
		dumpPanicSites(p)
		return
	}
	if *dump == "closures" {
		dumpClosures(p)
		return
	}
	if *dump != "" {
		dumpInventory(p, *dump)
		return
	}
	if *prop == "" {
		fmt.Fprintln(os.Stderr, "need -prop or -dump")
		os.Exit(2)
	}
	code := runProps(p, *prop, *tier, *evdir, *replaydir, *known, *replay, *quiet, start)
	os.Exit(code)
}

func dumpInventory(p *Prog, pat string) {
	for _, fn := range p.Funcs {
		name := funcName(fn)
		if pat != "*" && !strings.Contains(name, pat) {
			continue
		}
		fmt.Printf("=== %s  (%s)\n", name, p.pos(fn.Pos()))
		x := p.tx(fn)
		for _, b := range fn.Blocks {
			for _, in := range b.Instrs {
				switch in := in.(type) {
				case *ssa.If:
					a := condAtom(x, in.Cond, in)
					fmt.Printf("  b%d if %s  [pol=%v] -> b%d / b%d   @%s\n", b.Index, a.Key, a.Pol, b.Succs[0].Index, b.Succs[1].Index, p.instrPos(in))
				case *ssa.Return:
					var parts []string
					for _, r := range in.Results {
						parts = append(parts, x.Of(r, in).String())
					}
					fmt.Printf("  b%d return %s   [%s] @%s\n", b.Index, strings.Join(parts, " ; "), p.exitKind(x, in), p.instrPos(in))
				case *ssa.Panic:
					fmt.Printf("  b%d panic %s @%s\n", b.Index, x.Of(in.X, in), p.instrPos(in))
				case *ssa.Call:
					if in.Referrers() != nil && len(*in.Referrers()) > 0 {
						// value calls are shown where used; still list for completeness
					}
					fmt.Printf("  b%d call %s @%s\n", b.Index, x.Of(in, in), p.instrPos(in))
				case *ssa.Store:
					if _, isAlloc := rootAlloc(in.Addr); !isAlloc {
						fmt.Printf("  b%d store %s <- %s @%s\n", b.Index, x.Of(in.Addr, in), x.Of(in.Val, in), p.instrPos(in))
					}
				case *ssa.Defer:
					fmt.Printf("  b%d defer @%s\n", b.Index, p.instrPos(in))
				}
			}
		}
		if effs := p.effects(fn); len(effs.direct) > 0 {
			for _, e := range effs.direct {
				fmt.Printf("  effect %s\n", e)
			}
		}
	}
}

func rootAlloc(v ssa.Value) (*ssa.Alloc, bool) {
	for {
		switch a := v.(type) {
		case *ssa.Alloc:
			return a, true
		case *ssa.FieldAddr:
			v = a.X
		case *ssa.IndexAddr:
			v = a.X
		default:
			return nil, false
		}
	}
}

func dumpClosures(p *Prog) {
	for _, kind := range []string{"tx", "query"} {
		hs := p.txHandlers()
		if kind == "query" {
			hs = p.queryHandlers()
		}
		for _, h := range hs {
			fmt.Printf("--- %s %s\n", kind, h.Name)
			for _, e := range p.closure(h.Fn) {
				if e.Kind == "EXTERNAL" {
					continue
				}
				fmt.Printf("   %s   via %s\n", e, strings.Join(e.Chain, ">"))
			}
		}
	}
	for _, n := range []string{"cctp.InitGenesis", "cctp.ExportGenesis"} {
		fmt.Printf("--- %s\n", n)
		for _, e := range p.closure(p.Func(n)) {
			if e.Kind == "EXTERNAL" {
				continue
			}
			fmt.Printf("   %s   via %s\n", e, strings.Join(e.Chain, ">"))
		}
	}
}
