package main

import (
	"fmt"
	"sort"
	"strconv"
	"strings"

	"golang.org/x/tools/go/ssa"
)

// Independent CCTP wire-layout table, transcribed from Circle's CCTP technical
// reference (Message / BurnMessage formats) — NOT from x/cctp/types/constants.go.
type slot struct {
	Field  string
	Lo, Hi int    // byte range [Lo,Hi); Hi < 0 = to the end (variable-length tail)
	Kind   string // u32be | u64be | u256be | bytes
}

var headerLayout = []slot{
	{"Version", 0, 4, "u32be"},
	{"SourceDomain", 4, 8, "u32be"},
	{"DestinationDomain", 8, 12, "u32be"},
	{"Nonce", 12, 20, "u64be"},
	{"Sender", 20, 52, "bytes"},
	{"Recipient", 52, 84, "bytes"},
	{"DestinationCaller", 84, 116, "bytes"},
	{"MessageBody", 116, -1, "bytes"},
}

var burnLayout = []slot{
	{"Version", 0, 4, "u32be"},
	{"BurnToken", 4, 36, "bytes"},
	{"MintRecipient", 36, 68, "bytes"},
	{"Amount", 68, 100, "u256be"},
	{"MessageSender", 100, 132, "bytes"},
}

func sliceStr(base string, lo, hi int) string {
	l, h := "", ""
	if lo != 0 {
		l = strconv.Itoa(lo)
	}
	if hi >= 0 {
		h = strconv.Itoa(hi)
	}
	return base + "[" + l + ":" + h + "]"
}

// decoderTerm: the term the decoder must assign to the field for this slot.
func (s slot) decoderTerm(total int) string {
	src := sliceStr("p1", s.Lo, s.Hi)
	switch s.Kind {
	case "u32be":
		return "(encoding/binary.bigEndian).Uint32(encoding/binary.BigEndian," + src + ")"
	case "u64be":
		return "(encoding/binary.bigEndian).Uint64(encoding/binary.BigEndian," + src + ")"
	case "u256be":
		return "sdkmath.NewIntFromBigInt((*math/big.Int).SetBytes(&math/big.Int{}," + src + "))"
	}
	return src
}

// encoderValue: the value term the encoder must copy into the slot.
func (s slot) encoderValue() []string {
	f := "p0." + s.Field
	switch s.Kind {
	case "u32be": // through a 4-byte temporary, or PutUint32 straight into the slot
		return []string{"buf(4){[0:]=be32(" + f + ")}", "be32(" + f + ")"}
	case "u64be":
		return []string{"buf(8){[0:]=be64(" + f + ")}", "be64(" + f + ")"}
	case "u256be":
		return []string{"buf(32){[0:]=ubig((sdkmath.Int).BigInt(" + f + "))}", "ubig((sdkmath.Int).BigInt(" + f + "))"}
	}
	return []string{f}
}

func init() { register("C16", "other", runC16) }

func runC16(p *Prog, r *Report, tier string) {
	r.Rule = "L-slot: decoder field<-slice and encoder slot<-field against an independent layout table (13 slots x 2 directions); L-part: slots partition the fixed part; length guards (G-cut/G-fail/G-exact); RemoteTokenPadded"
	r.Explanation = "Decided: Message.Parse assigns each of the 8 header fields from exactly the byte range of the independent CCTP table (u32/u64 through encoding/binary.BigEndian — the callee object, so a little-endian variant differs —, 32-byte fields as sub-slices, body as bz[116:]); " +
		"Message.Bytes builds make(116+len(body)) and copies each field into the same range (numbers through BigEndian.PutUintNN on a buffer of the slot's width); BurnMessage.Parse/Bytes likewise for the 5 body slots with the amount as 32-byte unsigned big-endian (SetBytes / FillBytes on a 32-byte buffer) in a 132-byte result; " +
		"the slots partition [0,116) resp. [0,132) without gap or overlap; Parse rejects len < 116 resp. len != 132 and each Bytes rejects 32-byte fields of any other length, and nothing else; RemoteTokenPadded rejects non-hex and > 32 bytes and left-pads to 32. " +
		"Because both directions bind the same field to the same slot of a partition, decode-then-encode and encode-then-decode are identities on valid lengths; this consequence is argued, the round trip is not executed. Not decided: behaviour of encoding/binary and math/big."
	r.Assumptions = []string{"go/ssa faithfully represents the module code", "encoding/binary.BigEndian and math/big SetBytes/FillBytes behave as documented", "the layout table in the checker is the CCTP reference layout"}
	r.Trusted = r.Assumptions

	checkCodec(p, r, "Message", headerLayout, 116, true)
	checkCodec(p, r, "BurnMessage", burnLayout, 132, false)
	parseContracts(p, r)
	bytesContracts(p, r)

	// RemoteTokenPadded
	if c := p.fc(r, p.Func("types.RemoteTokenPadded"), "RemoteTokenPadded", [][2]string{{"HEX", `encoding/hex.DecodeString(strings.TrimPrefix(p0,"0x"))`}}); c != nil {
		succ := c.successReturns()
		rejects := applyRows(c, []guardRow{
			{"hex-ok", []Atom{A("(HEX#1 == nil)")}, succ},
			{"at-most-32-bytes", []Atom{A("(len(HEX#0) < 33)")}, succ},
		})
		c.exact("G-exact", rejects)
		for _, s := range succ {
			ret := s.(*ssa.Return)
			got := c.term(ret.Results[0], ret)
			c.teqOneOf("L-slot", "left-padded-to-32", got, []string{
				"buf(32){[(32 - len(HEX#0)):]=HEX#0,?[*]=0}",
				"buf(32){[(32 - len(HEX#0)):]=HEX#0}",
				// 32-len zero bytes followed by the token (make([]byte, 32-len, 32) then append)
				"cat(buf(32){}[:(32 - len(HEX#0))],HEX#0)",
			}, p.instrPos(ret))
		}
	}
}

func checkCodec(p *Prog, r *Report, typ string, layout []slot, fixed int, hasTail bool) {
	// partition of the table itself (guards against a typo in the oracle)
	pos := 0
	for _, s := range layout {
		if s.Lo != pos {
			r.fail("L-part", "L-part/"+typ+"/table", "", fmt.Sprintf("layout table has a gap/overlap at %s", s.Field))
		}
		if s.Hi >= 0 {
			pos = s.Hi
		}
	}
	r.check(pos == fixed, "L-part", "L-part/"+typ+"/table-covers-fixed-part", "", fmt.Sprintf("table slots partition [0,%d)", fixed), fmt.Sprintf("table covers [0,%d), expected %d", pos, fixed))

	// ---- decoder
	if c := p.fc(r, p.Func("types.*"+typ+".Parse"), typ+".Parse", nil); c != nil {
		st := storesThrough(c, c.fn.Params[0])
		for _, s := range layout {
			got, ok := st[s.Field]
			if !ok {
				r.fail("L-slot", "L-slot/"+typ+".Parse/"+s.Field, c.pos(), "decoder never assigns field "+s.Field)
				continue
			}
			want := s.decoderTerm(fixed)
			// an explicit upper bound on the tail (bz[116:len(bz)]) is the same slice
			got = strings.ReplaceAll(got, ":len(p1)]", ":]")
			if s.Hi == fixed && !hasTail {
				// the input is exactly `fixed` bytes long (Parse contract): x[lo:] is x[lo:fixed]
				got = strings.ReplaceAll(got, sliceStr("p1", s.Lo, -1), sliceStr("p1", s.Lo, s.Hi))
			}
			c.teq("L-slot", "decode/"+s.Field, got, want, c.pos())
		}
		var extra []string
		for f := range st {
			known := false
			for _, s := range layout {
				if s.Field == f {
					known = true
				}
			}
			if !known {
				extra = append(extra, f)
			}
		}
		sort.Strings(extra)
		r.check(len(extra) == 0, "L-slot", "L-slot/"+typ+".Parse/no-extra-fields", c.pos(), "decoder assigns exactly the table's fields", fmt.Sprintf("decoder assigns fields outside the layout table: %v", extra))
		r.floor(typ+".Parse-slots", len(st), len(layout))
	}
	// ---- encoder
	if c := p.fc(r, p.Func("types.*"+typ+".Bytes"), typ+".Bytes", nil); c != nil {
		var buf *Term
		for _, s := range c.successReturns() {
			ret := s.(*ssa.Return)
			buf = c.x.Of(ret.Results[0], ret)
		}
		if buf != nil && buf.Op == "cat" {
			// append-style encoder: the result is the concatenation of its segments, so the
			// offsets are right iff the segments are the table's slots in order and every
			// fixed-width byte field before the end has exactly its width
			var retIn ssa.Instruction
			for _, s := range c.successReturns() {
				retIn = s
			}
			r.check(len(buf.A) == len(layout), "L-part", "L-part/"+typ+".Bytes/no-stray-writes", c.pos(), "encoder concatenates exactly the table's slots",
				fmt.Sprintf("encoder concatenates %d segments, the layout has %d slots: %s", len(buf.A), len(layout), buf))
			for i, s := range layout {
				if i >= len(buf.A) {
					r.fail("L-slot", "L-slot/"+typ+".Bytes/encode/"+s.Field, c.pos(), "encoder writes nothing for "+s.Field)
					continue
				}
				c.teqOneOf("L-slot", "encode/"+s.Field, buf.A[i].String(), s.encoderValue(), c.pos())
				if s.Kind == "bytes" && s.Hi >= 0 {
					w := s.Hi - s.Lo
					key := fmt.Sprintf("(%d == len(p0.%s))", w, s.Field)
					r.check(established(c, key, true, retIn), "L-part", "L-part/"+typ+".Bytes/width/"+s.Field, c.pos(),
						fmt.Sprintf("%s is %d bytes wide whenever the encoder succeeds", s.Field, w),
						fmt.Sprintf("the concatenating encoder does not establish len(%s) == %d: every later field would be shifted", s.Field, w))
				}
			}
			r.ok("L-part", "L-part/"+typ+".Bytes/encode/size", c.pos(), "size is the sum of the slot widths (concatenation)")
			return
		}
		if buf == nil || buf.Op != "buf" {
			r.undecided("L-slot", "L-slot/"+typ+".Bytes/result", c.pos(), fmt.Sprintf("encoder result is not a locally built buffer: %v", buf))
			return
		}
		wantSize := strconv.Itoa(fixed)
		if hasTail {
			wantSize = fmt.Sprintf("(len(p0.MessageBody) + %d)", fixed)
		}
		c.teq("L-part", "encode/size", buf.S, wantSize, c.pos())
		got := map[string]string{}
		var dupRanges []string
		for i, rng := range buf.F {
			if _, dup := got[rng]; dup {
				dupRanges = append(dupRanges, rng)
			}
			got[rng] = buf.A[i].String()
		}
		// one writer per range: with two, which one lands last is a matter of execution order that
		// the buffer term does not keep
		r.check(len(dupRanges) == 0, "L-part", "L-part/"+typ+".Bytes/one-writer-per-range", c.pos(), "every byte range of the encoder's buffer is written once", fmt.Sprintf("byte ranges written more than once: %v", dupRanges))
		used := map[string]bool{}
		for _, s := range layout {
			var cands []string
			if s.Hi >= 0 {
				cands = append(cands, fmt.Sprintf("[%d:%d]", s.Lo, s.Hi))
				if s.Hi == fixed && !hasTail {
					cands = append(cands, fmt.Sprintf("[%d:]", s.Lo))
				}
			} else {
				cands = append(cands, fmt.Sprintf("[%d:]", s.Lo), fmt.Sprintf("[%d:%s]", s.Lo, wantSize), fmt.Sprintf("[%d:(%d + len(p0.%s))]", s.Lo, s.Lo, s.Field), fmt.Sprintf("[%d:(len(p0.%s) + %d)]", s.Lo, s.Field, s.Lo))
			}
			val, found := "", false
			for _, cand := range cands {
				if v, ok := got[cand]; ok {
					val, found = v, true
					used[cand] = true
					break
				}
			}
			if !found {
				r.fail("L-slot", "L-slot/"+typ+".Bytes/encode/"+s.Field, c.pos(), fmt.Sprintf("encoder writes nothing to the slot of %s %v; ranges written: %v", s.Field, cands, buf.F))
				continue
			}
			c.teqOneOf("L-slot", "encode/"+s.Field, val, s.encoderValue(), c.pos())
		}
		var stray []string
		for rng := range got {
			if !used[rng] {
				stray = append(stray, rng)
			}
		}
		sort.Strings(stray)
		r.check(len(stray) == 0, "L-part", "L-part/"+typ+".Bytes/no-stray-writes", c.pos(), "encoder writes exactly the table's slots (a partition)", fmt.Sprintf("encoder writes ranges outside the layout table: %v", stray))
	}
}
