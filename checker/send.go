package main

import (
	"fmt"
	"go/types"
	"strings"

	"golang.org/x/tools/go/ssa"
)

// abbreviations for depositForBurn (params: p2 from, p3 amount, p4 destinationDomain,
// p5 mintRecipient, p6 burnToken, p7 destinationCaller)
var abDFB = [][2]string{
	{"ACC", "sdk.AccAddressFromBech32(p2)"},
	{"COIN", "sdk.NewCoin(p6,p3)"},
	{"MODADDR", "(sdk.AccAddress).String(types.ModuleAddress)"},
	{"SENDER32", "buf(32){[12:]=ACC#0}"},
	{"TOKHASH", "ethcrypto.Keccak256([]byte(strings.ToLower(p6)))"},
	{"BM", "&types.BurnMessage{BurnToken:TOKHASH,MintRecipient:p5,Amount:p3,MessageSender:SENDER32}"},
	{"BODY", "(*types.BurnMessage).Bytes(BM)"},
	{"TM", "k.GetRemoteTokenMessenger(ctx,p4)"},
	{"SMREQ", "&types.MsgSendMessage{From:MODADDR,DestinationDomain:p4,Recipient:TM#0.Address,MessageBody:BODY#0}"},
	{"SMCREQ", "&types.MsgSendMessageWithCaller{From:MODADDR,DestinationDomain:p4,Recipient:TM#0.Address,MessageBody:BODY#0,DestinationCaller:p7}"},
	{"SMC", "k.SendMessageWithCaller(ctx,SMCREQ)"},
	{"SM", "k.SendMessage(ctx,SMREQ)"},
	{"LIMIT", "k.GetPerMessageBurnLimit(ctx,strings.ToLower(p6))"},
	{"DENOM", "k.fiattokenfactory.GetMintingDenom(ctx).Denom"},
	{"DEBIT", `k.bank.SendCoinsFromAccountToModule(ctx,ACC#0,"cctp",sdk.NewCoins(COIN))`},
	{"BURN", "k.fiattokenfactory.Burn(ctx,&ftf.MsgBurn{From:MODADDR,Amount:COIN})"},
}

// abDFBl: as abDFB, but calls whose arguments are C05/C06's business are abbreviated with a
// balanced wildcard so that C08's guards (`… returned nil`) do not depend on them.
var abDFBl = [][2]string{
	{"ACC", "sdk.AccAddressFromBech32(p2)"},
	{"TM", "k.GetRemoteTokenMessenger(ctx,p4)"},
	{"LIMIT", "k.GetPerMessageBurnLimit(ctx,strings.ToLower(p6))"},
	{"DENOM", "k.fiattokenfactory.GetMintingDenom(ctx).Denom"},
	{"DEBIT", "k.bank.SendCoinsFromAccountToModule(§)"},
	{"BURN", "k.fiattokenfactory.Burn(§)"},
	{"BODY", "(*types.BurnMessage).Bytes(§)"},
	{"SMC", "k.SendMessageWithCaller(§)"},
	{"SM", "k.SendMessage(§)"},
}

var abSMl = [][2]string{
	{"MSGBYTES", "(*types.Message).Bytes(§)"},
	{"MAX", "k.GetMaxMessageBodySize(ctx)"},
	{"EMIT", "(sdk.Context).EventManager(ctx).EmitTypedEvent(§)"},
}

// abbreviations shared by the handlers whose request is p2
var abFrom = [][2]string{
	{"ACC", "sdk.AccAddressFromBech32(p2.From)"},
	{"SENDER32", "buf(32){[12:]=ACC#0}"},
	{"RES", "k.ReserveAndIncrementNonce(ctx)"},
	{"MODADDR", "(sdk.AccAddress).String(types.ModuleAddress)"},
}

var abRPM = [][2]string{
	{"MP", "(*types.Message).Parse(§)"},
	{"M", "MP#0"},
	{"BP", "(*types.BurnMessage).Parse(§)"},
	{"B", "BP#0"},
	{"ACC", "sdk.AccAddressFromBech32(p2.From)"},
	{"SENDER32", "buf(32){[12:]=ACC#0}"},
	{"VAS", "keeper.VerifyAttestationSignatures(§)"},
	{"MODADDR", "(sdk.AccAddress).String(types.ModuleAddress)"},
	{"NEWBM", "&types.BurnMessage{Version:B.Version,BurnToken:B.BurnToken,MintRecipient:p2.NewMintRecipient,Amount:B.Amount,MessageSender:B.MessageSender}"},
	{"NEWBODY", "(*types.BurnMessage).Bytes(§)"},
	{"RPM", "k.ReplaceMessage(§)"},
	{"SMSG", "k.sendMessage(ctx,M.DestinationDomain,M.Recipient,p2.NewDestinationCaller,M.Sender,M.Nonce,p2.NewMessageBody)"},
}

var abSM = [][2]string{
	{"MSG", "&types.Message{SourceDomain:4,DestinationDomain:p2,Nonce:p6,Sender:p5,Recipient:p3,DestinationCaller:p4,MessageBody:p7}"},
	{"MSGBYTES", "(*types.Message).Bytes(MSG)"},
	{"MAX", "k.GetMaxMessageBodySize(ctx)"},
	{"EMIT", "(sdk.Context).EventManager(ctx).EmitTypedEvent(&types.MessageSent{Message:MSGBYTES#0})"},
}

func neg(a Atom) Atom { return Atom{Key: a.Key, Pol: !a.Pol} }

type guardRow struct {
	name  string
	guard []Atom
	scope []ssa.Instruction
}

// applyRows: G-cut + G-fail for each row, returns the reject atoms (negations).
func applyRows(c *FC, rows []guardRow) []Atom {
	var rejects []Atom
	for _, g := range rows {
		c.requireCut("G-cut", g.name, g.guard, g.scope)
		c.requireFailArm("G-fail", g.name, g.guard, false)
		for _, a := range g.guard {
			rejects = append(rejects, neg(a))
		}
	}
	return rejects
}

func emitCalls(c *FC) []*ssa.Call {
	var out []*ssa.Call
	for _, b := range c.fn.Blocks {
		for _, in := range b.Instrs {
			if call, ok := in.(*ssa.Call); ok && call.Call.IsInvoke() && call.Call.Method.Name() == "EmitTypedEvent" {
				out = append(out, call)
			}
		}
	}
	return out
}

func union(lists ...[]ssa.Instruction) []ssa.Instruction {
	seen := map[ssa.Instruction]bool{}
	var out []ssa.Instruction
	for _, l := range lists {
		for _, in := range l {
			if !seen[in] {
				seen[in] = true
				out = append(out, in)
			}
		}
	}
	return out
}

// ---------------------------------------------------------------------------
// C08

func init() { register("C08", "other", runC08) }

func runC08(p *Prog, r *Report, tier string) {
	r.Rule = "precondition tables of depositForBurn, DepositForBurnWithCaller, SendMessageWithCaller, SendMessage, sendMessage: G-cut with exact comparator normal form, G-fail, G-exact; K-agree of burn limits"
	r.Explanation = "Decided: the debit, the burn, the inner send, the DepositForBurn event and the success return of depositForBurn are unreachable unless: the from address parses, the amount is present and strictly positive, the mint recipient is non-nil and not 32 zero bytes, " +
		"a token messenger is found for the destination domain, the burn token case-folds to the minting denom and is a valid denom, the mint/burn pause is off, and (no limit stored for ToLower(burnToken) or NOT limit < amount) — the exact relation, so amount == limit passes and limit+1 fails; " +
		"then debit, burn, body encoding and the inner send must each have returned nil. The with-caller variants require a non-empty, non-zero (32-byte, in SendMessageWithCaller) caller. sendMessage requires the send pause off, " +
		"(no max size stored or NOT max < len(body)) — exact, so len == max passes —, a non-empty non-zero recipient and a successful header encoding (which enforces the 32-byte field lengths). " +
		"No function on this path rejects for any other reason. The limit is stored under ToLower(denom) as key and Denom, and looked up under ToLower(burnToken). Not decided: depositor solvency and the fiat-token-factory's own conditions."
	r.Assumptions = []string{"go/ssa faithfully represents the module code", "math.Int GT/IsPositive/IsNil are the relations they name", "strings.EqualFold/sdk.ValidateDenom behave as documented"}
	r.Trusted = r.Assumptions
	ctxDiscipline(p, r, txRoots(p, "DepositForBurn", "DepositForBurnWithCaller", "SendMessage", "SendMessageWithCaller"))

	flagGetterContract(p, r, flagBM)
	foundGetterContract(p, r, "GetPerMessageBurnLimit", "PerMessageBurnLimit/value/", "types.PerMessageBurnLimitKey(p2)", "types.PerMessageBurnLimit{}")
	foundGetterContract(p, r, "GetMaxMessageBodySize", "MaxMessageBodySize/value/", `[]byte("MaxMessageBodySize/value/")`, "types.MaxMessageBodySize{}")
	foundGetterContract(p, r, "GetRemoteTokenMessenger", "RemoteTokenMessenger/value/", "types.RemoteTokenMessengerKey(p2)", "types.RemoteTokenMessenger{}")

	if c := p.fc(r, p.Func("keeper.msgServer.depositForBurn"), "depositForBurn", abDFBl); c != nil {
		debit := c.instrs(c.calls("k.bank.SendCoinsFromAccountToModule"))
		burn := c.instrs(c.calls("k.fiattokenfactory.Burn"))
		sm := c.instrs(c.calls("k.SendMessage"))
		smc := c.instrs(c.calls("k.SendMessageWithCaller"))
		ev := c.instrs(emitCalls(c))
		succ := c.successReturns()
		all := union(debit, burn, sm, smc, ev, succ)
		r.check(len(debit) == 1 && len(burn) == 1 && len(sm) == 1 && len(smc) == 1 && len(ev) == 1 && len(succ) == 1, "anchor", "anchor/depositForBurn/sites", c.pos(),
			"one debit, one burn, one send, one send-with-caller, one event, one success exit",
			fmt.Sprintf("sites: debit=%d burn=%d send=%d sendWithCaller=%d event=%d success=%d", len(debit), len(burn), len(sm), len(smc), len(ev), len(succ)))
		rows := []guardRow{
			{"from-valid", []Atom{A("(nil == ACC#1)")}, all},
			{"amount-present", []Atom{A("!(sdkmath.Int).IsNil(p3)")}, all},
			{"amount-positive", []Atom{A("(0 <I p3)")}, all},
			{"recipient-non-nil", []Atom{A("!(nil == p5)")}, all},
			{"recipient-non-zero", []Atom{A("!bytes.Equal(buf(32){},p5)")}, all},
			{"messenger-found", []Atom{A("TM#1")}, all},
			{"is-minting-denom", []Atom{A("strings.EqualFold(DENOM,p6)")}, all},
			{"valid-denom", []Atom{A("(nil == sdk.ValidateDenom(p6))")}, all},
			{"debit-ok", []Atom{A("(DEBIT == nil)")}, union(burn, sm, smc, ev, succ)},
			{"burn-ok", []Atom{A("(BURN#1 == nil)")}, union(sm, smc, ev, succ)},
			{"body-encoded", []Atom{A("(BODY#1 == nil)")}, union(sm, smc, ev, succ)},
			{"send-ok", []Atom{A("(SM#1 == nil)"), A("(SMC#1 == nil)")}, union(ev, succ)},
		}
		rejects := applyRows(c, rows)
		c.requireCut("G-cut", "mint-burn-not-paused", notPaused(flagBM), all)
		c.requireFailArm("G-fail", "mint-burn-not-paused", notPaused(flagBM), false)
		rejects = append(rejects, A("k.GetBurningAndMintingPaused(ctx)#0.Paused"), A("k.GetBurningAndMintingPaused(ctx)#1"))
		limit := []Atom{A("!LIMIT#1"), A("!(LIMIT#0.Amount <I p3)")}
		c.requireCut("G-cut", "amount<=limit(exact)", limit, all)
		c.requireFailArm("G-fail", "amount<=limit(exact)", limit, false)
		rejects = append(rejects, A("(LIMIT#0.Amount <I p3)"))
		c.exact("G-exact", rejects)
		// routing on the caller
		c.requireCut("G-cut", "route/no-caller->SendMessage", []Atom{A("(0 == len(p7))")}, sm)
		c.requireCut("G-cut", "route/caller->SendMessageWithCaller", []Atom{A("!(0 == len(p7))")}, smc)
	}
	if c := p.fc(r, handlerFn(p, "DepositForBurnWithCaller"), "DepositForBurnWithCaller", nil); c != nil {
		all := union(c.instrs(c.calls("k.depositForBurn")), c.successReturns())
		rejects := applyRows(c, []guardRow{
			{"caller-non-empty", []Atom{A("!(0 == len(p2.DestinationCaller))")}, all},
			{"caller-non-zero", []Atom{A("!bytes.Equal(buf(32){},p2.DestinationCaller)")}, all},
		})
		c.exact("G-exact", rejects)
	}
	if c := p.fc(r, handlerFn(p, "DepositForBurn"), "DepositForBurn", nil); c != nil {
		c.exact("G-exact", nil)
	}
	if c := p.fc(r, handlerFn(p, "SendMessageWithCaller"), "SendMessageWithCaller", abFrom); c != nil {
		all := union(c.effectSites(), c.successReturns())
		rejects := applyRows(c, []guardRow{
			{"from-valid", []Atom{A("(nil == ACC#1)")}, all},
			{"caller-32-bytes", []Atom{A("(32 == len(p2.DestinationCaller))")}, all},
			{"caller-non-zero", []Atom{A("!bytes.Equal(buf(32){},p2.DestinationCaller)")}, all},
		})
		c.exact("G-exact", rejects)
	}
	if c := p.fc(r, handlerFn(p, "SendMessage"), "SendMessage", abFrom); c != nil {
		all := union(c.effectSites(), c.successReturns())
		rejects := applyRows(c, []guardRow{{"from-valid", []Atom{A("(nil == ACC#1)")}, all}})
		c.exact("G-exact", rejects)
	}
	if c := p.fc(r, p.Func("keeper.msgServer.sendMessage"), "sendMessage", abSMl); c != nil {
		ev := c.instrs(emitCalls(c))
		all := union(ev, c.successReturns())
		c.requireCut("G-cut", "send-not-paused", notPaused(flagSR), all)
		c.requireFailArm("G-fail", "send-not-paused", notPaused(flagSR), false)
		size := []Atom{A("!MAX#1"), A("!(MAX#0.Amount < uint64(len(p7)))")}
		c.requireCut("G-cut", "len(body)<=max(exact)", size, all)
		c.requireFailArm("G-fail", "len(body)<=max(exact)", size, false)
		rejects := applyRows(c, []guardRow{
			{"recipient-non-empty", []Atom{A("!(0 == len(p3))")}, all},
			{"recipient-non-zero", []Atom{A("!bytes.Equal(buf(len(p3)){},p3)")}, all},
			{"header-encoded", []Atom{A("(MSGBYTES#1 == nil)")}, all},
		})
		rejects = append(rejects, A("k.GetSendingAndReceivingMessagesPaused(ctx)#0.Paused"), A("k.GetSendingAndReceivingMessagesPaused(ctx)#1"), A("(MAX#0.Amount < uint64(len(p7)))"))
		c.exact("G-exact", rejects)
	}
	// encoders enforce the 32-byte field lengths (contract used above through "…-encoded")
	bytesContracts(p, r)

	// K-agree burn limits
	kAgree(p, r, "burn-limits", "PerMessageBurnLimit/value/", map[string]string{
		"GetPerMessageBurnLimit": "R types.PerMessageBurnLimitKey(p2)",
		"SetPerMessageBurnLimit": "W types.PerMessageBurnLimitKey(p2.Denom)",
	})
	if c := p.fc(r, handlerFn(p, "SetMaxBurnAmountPerMessage"), "SetMaxBurnAmountPerMessage", nil); c != nil {
		if call := c.oneCall("K-agree", "k.SetPerMessageBurnLimit"); call != nil {
			c.teq("K-agree", "stored-limit", c.args(call)[1], "types.PerMessageBurnLimit{Denom:strings.ToLower(p2.LocalToken),Amount:p2.Amount}", p.instrPos(call))
		}
	}
	if c := p.fc(r, p.Func("types.PerMessageBurnLimitKey"), "PerMessageBurnLimitKey", nil); c != nil {
		for _, ret := range allReturns(c.fn) {
			c.teq("K-agree", "key-shape", c.term(ret.Results[0], ret), `cat([]byte(p0),[]byte("/"))`, p.instrPos(ret))
		}
	}
	if c := p.fc(r, p.Func("keeper.msgServer.depositForBurn"), "depositForBurn", abDFBl); c != nil {
		if call := c.oneCall("K-agree", "k.GetPerMessageBurnLimit"); call != nil {
			c.teq("K-agree", "limit-lookup-key", c.args(call)[1], "strings.ToLower(p6)", p.instrPos(call))
		}
	}
}

// bytesContracts: Message.Bytes / BurnMessage.Bytes return nil error only when the
// fixed-width fields are 32 bytes long.
func bytesContracts(p *Prog, r *Report) {
	if c := p.fc(r, p.Func("types.*Message.Bytes"), "Message.Bytes", nil); c != nil {
		for _, f := range []string{"Sender", "Recipient", "DestinationCaller"} {
			g := []Atom{A("(32 == len(p0." + f + "))")}
			c.requireCut("contract", "nil-error-implies-len("+f+")==32", g, c.successReturns())
			c.requireFailArm("contract", "nil-error-implies-len("+f+")==32", g, false)
		}
		c.exact("contract-exact", []Atom{A("!(32 == len(p0.Sender))"), A("!(32 == len(p0.Recipient))"), A("!(32 == len(p0.DestinationCaller))")})
	}
	if c := p.fc(r, p.Func("types.*BurnMessage.Bytes"), "BurnMessage.Bytes", nil); c != nil {
		for _, f := range []string{"BurnToken", "MintRecipient", "MessageSender"} {
			g := []Atom{A("(32 == len(p0." + f + "))")}
			c.requireCut("contract", "nil-error-implies-len("+f+")==32", g, c.successReturns())
			c.requireFailArm("contract", "nil-error-implies-len("+f+")==32", g, false)
		}
		c.exact("contract-exact", []Atom{A("!(32 == len(p0.BurnToken))"), A("!(32 == len(p0.MintRecipient))"), A("!(32 == len(p0.MessageSender))")})
	}
}

// ---------------------------------------------------------------------------
// C05

func init() { register("C05", "other", runC05) }

func runC05(p *Prog, r *Report, tier string) {
	r.Rule = "T-eq of debit, burn, burn body and every message sender; G-mpt ordering debit -> burn -> send -> success; CG-callers / F-neg who may debit, burn, emit"
	r.Explanation = "Decided: in depositForBurn the bank is asked to move sdk.NewCoins(sdk.NewCoin(burnToken, amount)) from AccAddressFromBech32(from) to module \"cctp\"; the fiat-token-factory is asked to burn the same coin value in the name of ModuleAddress; " +
		"the burn message states Amount = the amount parameter and MessageSender = the depositor left-padded; the inner message is sent with From = ModuleAddress. The burn lies behind a successful debit, the inner send behind a successful burn, the success return behind a successful send. " +
		"SendMessage/SendMessageWithCaller pass pad32(AccAddressFromBech32(msg.From)) as sender; ReplaceMessage passes the original sender, which it compared with pad32(msg.From). MessageSent is emitted only by sendMessage, reachable only through those three, " +
		"and SendMessage*/ReplaceMessage are called inside the module only by depositForBurn / ReplaceDepositForBurn with From = ModuleAddress. Only DepositForBurn and DepositForBurnWithCaller can reach the bank transfer or Burn. " +
		"Not decided: what bank and fiat-token-factory do with the requests; the sums over histories (they follow from per-deposit equality, C07 nonce uniqueness and C14) are argued, not executed."
	r.Assumptions = []string{"go/ssa faithfully represents the module code", "bank SendCoinsFromAccountToModule and fiat-token-factory Burn do exactly what they are asked or return an error", "signer verification binds msg.From to the submitter (C10 signer clause)"}
	r.Trusted = r.Assumptions
	ctxDiscipline(p, r, txRoots(p, "DepositForBurn", "DepositForBurnWithCaller", "SendMessage", "SendMessageWithCaller", "ReplaceMessage", "ReplaceDepositForBurn"))

	if c := p.fc(r, p.Func("keeper.msgServer.depositForBurn"), "depositForBurn", abDFB[:5]); c != nil {
		debit := c.oneCall("T-eq", "k.bank.SendCoinsFromAccountToModule")
		burn := c.oneCall("T-eq", "k.fiattokenfactory.Burn")
		sm := c.oneCall("T-eq", "k.SendMessage")
		smc := c.oneCall("T-eq", "k.SendMessageWithCaller")
		if debit != nil && burn != nil && sm != nil && smc != nil {
			a := c.args(debit)
			c.teq("T-eq", "debit.payer", a[1], "ACC#0", p.instrPos(debit))
			c.teq("T-eq", "debit.recipient-module", a[2], `"cctp"`, p.instrPos(debit))
			c.teq("T-eq", "debit.coins", a[3], "sdk.NewCoins(COIN)", p.instrPos(debit))
			c.teq("T-eq", "coin", "COIN", c.sh("sdk.NewCoin(p6,p3)"), p.instrPos(debit))
			c.checkLit("T-eq", "MsgBurn", c.argTerms(burn)[1], "ftf.MsgBurn", map[string]string{"From": "MODADDR", "Amount": "COIN"}, p.instrPos(burn))
			// burn body
			bytesCall := c.oneCall("T-eq", "(*types.BurnMessage).Bytes")
			if bytesCall != nil {
				c.checkLit("T-eq", "BurnMessage", c.argTerms(bytesCall)[0], "types.BurnMessage", map[string]string{
					"BurnToken": "TOKHASH", "MintRecipient": "p5", "Amount": "p3", "MessageSender": "SENDER32"}, p.instrPos(bytesCall))
			}
			// inner messages are sent in the module's name
			_, f1, ok1 := c.litFields(c.argTerms(sm)[1])
			_, f2, ok2 := c.litFields(c.argTerms(smc)[1])
			if ok1 && ok2 {
				c.teq("T-eq", "inner-send.From", f1["From"], "MODADDR", p.instrPos(sm))
				c.teq("T-eq", "inner-send-with-caller.From", f2["From"], "MODADDR", p.instrPos(smc))
			} else {
				r.undecided("T-eq", "T-eq/depositForBurn/inner-send.From", p.instrPos(sm), "inner message is not a resolvable literal")
			}
			// ordering
			c.mustPass("G-mpt", "debit-before-burn", []ssa.Instruction{debit}, []ssa.Instruction{burn})
			c.mustPass("G-mpt", "burn-before-send", []ssa.Instruction{burn}, []ssa.Instruction{sm, smc})
			c.mustPass("G-mpt", "send-before-success", []ssa.Instruction{sm, smc}, c.successReturns())
			c.mustPass("G-mpt", "debit-before-success", []ssa.Instruction{debit}, c.successReturns())
			c.mustPass("G-mpt", "burn-before-success", []ssa.Instruction{burn}, c.successReturns())
			for _, in := range []*ssa.Call{debit, burn} {
				r.check(!c.onCycle(in), "G-once", "G-once/depositForBurn/"+c.callName(in), p.instrPos(in), "not in a loop", "ledger call inside a loop")
			}
		}
	}
	// senders
	for _, n := range []string{"SendMessage", "SendMessageWithCaller"} {
		if c := p.fc(r, handlerFn(p, n), n, abFrom); c != nil {
			if call := c.oneCall("T-eq", "k.sendMessage"); call != nil {
				c.teq("T-eq", "sender", c.args(call)[4], "SENDER32", p.instrPos(call))
			}
		}
	}
	if c := p.fc(r, handlerFn(p, "ReplaceMessage"), "ReplaceMessage", abRPM); c != nil {
		if call := c.oneCall("T-eq", "k.sendMessage"); call != nil {
			c.teq("T-eq", "sender", c.args(call)[4], "M.Sender", p.instrPos(call))
			g := []Atom{A("bytes.Equal(M.Sender,SENDER32)")}
			c.requireCut("G-cut", "original-sender==submitter", g, union([]ssa.Instruction{call}, c.successReturns()))
			c.requireFailArm("G-fail", "original-sender==submitter", g, false)
		}
	}
	// a replacement of a deposit re-emits the original amount, token and depositor (nothing new is burnt)
	rdfbBodyObligations(p, r)
	if c := p.fc(r, handlerFn(p, "ReplaceMessage"), "ReplaceMessage", abRPM); c != nil {
		if call := c.oneCall("T-eq", "k.sendMessage"); call != nil {
			c.teq("T-eq", "re-emitted-body", c.args(call)[6], "p2.NewMessageBody", p.instrPos(call))
		}
	}
	// who may emit / debit / burn
	sm := p.Func("keeper.msgServer.sendMessage")
	callers := p.callerNames(sm)
	r.check(sameSet(callers, []string{"(keeper.msgServer).SendMessage", "(keeper.msgServer).SendMessageWithCaller", "(keeper.msgServer).ReplaceMessage"}), "CG-callers", "CG-callers/sendMessage", "",
		fmt.Sprintf("callers = %v", callers), fmt.Sprintf("callers of sendMessage are %v", callers))
	for _, n := range []string{"SendMessage", "SendMessageWithCaller"} {
		cs := p.callerNames(handlerFn(p, n))
		r.check(sameSet(cs, []string{"(keeper.msgServer).depositForBurn"}), "CG-callers", "CG-callers/"+n, "", fmt.Sprintf("in-module callers = %v", cs), fmt.Sprintf("in-module callers of %s are %v", n, cs))
	}
	cs := p.callerNames(handlerFn(p, "ReplaceMessage"))
	r.check(sameSet(cs, []string{"(keeper.msgServer).ReplaceDepositForBurn"}), "CG-callers", "CG-callers/ReplaceMessage", "", fmt.Sprintf("in-module callers = %v", cs), fmt.Sprintf("in-module callers of ReplaceMessage are %v", cs))
	var sentSites []string
	for _, fn := range p.Funcs {
		for _, e := range p.own(fn) {
			if e.Kind == "EVENT" && e.Region == "*types.MessageSent" {
				sentSites = append(sentSites, funcName(fn))
			}
		}
	}
	r.check(len(sentSites) == 1 && sentSites[0] == "(keeper.msgServer).sendMessage", "F-writers", "F-writers/EVENT MessageSent", "", "MessageSent emitted only in sendMessage", fmt.Sprintf("MessageSent sites: %v", sentSites))
	n := 0
	for _, h := range p.txHandlers() {
		deposit := h.Name == "DepositForBurn" || h.Name == "DepositForBurnWithCaller"
		for _, led := range []string{"bank.SendCoinsFromAccountToModule", "fiattokenfactory.Burn"} {
			n++
			has := hasEffect(p, h.Fn, "LEDGER", led)
			if deposit {
				r.check(has, "F-set", "F-set/"+h.Name+"/"+led, "", "deposit reaches "+led, h.Name+" no longer reaches "+led)
			} else {
				r.check(!has, "F-neg", "F-neg/"+h.Name+"/"+led, "", "cannot reach "+led, h.Name+" can reach "+led+": funds can move outside a deposit")
			}
		}
	}
	for _, q := range p.queryHandlers() {
		for _, led := range []string{"bank.SendCoinsFromAccountToModule", "fiattokenfactory.Burn"} {
			n++
			r.check(!hasEffect(p, q.Fn, "LEDGER", led), "F-neg", "F-neg/query/"+q.Name+"/"+led, "", "cannot reach "+led, "query can reach "+led)
		}
	}
	r.floor("ledger-reachability-cells", n, 2*(25+19))
}

// ---------------------------------------------------------------------------
// C06

func init() { register("C06", "other", runC06) }

func runC06(p *Prog, r *Report, tier string) {
	r.Rule = "T-eq of 8 header fields, call-site bindings of sendMessage, response nonces, 5 burn-body fields, recipient and caller routing, 8+8 DepositForBurn event fields; T-kind of the burn token"
	r.Explanation = "Decided: sendMessage encodes Message{Version 0, SourceDomain 4, DestinationDomain, Nonce, Sender, Recipient, DestinationCaller, MessageBody} from its parameters and emits MessageSent{those bytes}; SendMessage binds (msg.DestinationDomain, msg.Recipient, 32 zero bytes, pad32(from), reserved nonce, msg.MessageBody), " +
		"SendMessageWithCaller the same with msg.DestinationCaller, and both return the reserved nonce; depositForBurn builds BurnMessage{Version 0, BurnToken Keccak256(ToLower(burnToken)), mintRecipient, amount, pad32(depositor)}, sends it to the messenger registered for the destination domain, with the caller routed by len(destinationCaller)==0, " +
		"and its DepositForBurn event reports the inner response's nonce, hex(body burn token), amount, from, mintRecipient, destinationDomain, messenger address, destinationCaller; the replacement's event reports the original nonce, hex(original body burn token) — the same kind, one Keccak over the denom then hex —, original amount, msg.From, new recipient, original destination and recipient, new caller. " +
		"Not decided: the SDK's JSON encoding of typed events; the byte layout produced by Bytes() is C16."
	r.Assumptions = []string{"go/ssa faithfully represents the module code", "typed-event emission encodes the struct it is given", "Message.Bytes/BurnMessage.Bytes follow the CCTP layout (C16)"}
	r.Trusted = r.Assumptions
	ctxDiscipline(p, r, txRoots(p, "DepositForBurn", "DepositForBurnWithCaller", "SendMessage", "SendMessageWithCaller", "ReplaceMessage", "ReplaceDepositForBurn"))

	if c := p.fc(r, p.Func("keeper.msgServer.sendMessage"), "sendMessage", nil); c != nil {
		if call := c.oneCall("T-eq", "(*types.Message).Bytes"); call != nil {
			c.checkLit("T-eq", "Message", c.argTerms(call)[0], "types.Message", map[string]string{
				"SourceDomain": "4", "DestinationDomain": "p2", "Nonce": "p6", "Sender": "p5", "Recipient": "p3", "DestinationCaller": "p4", "MessageBody": "p7"}, p.instrPos(call))
		}
		evs := emitCalls(c)
		if len(evs) == 1 {
			c.ab = abSM[:2]
			c.teq("T-eq", "MessageSent", c.sh(c.argTerms(evs[0])[0].String()), "&types.MessageSent{Message:MSGBYTES#0}", p.instrPos(evs[0]))
			c.mustPass("G-mpt", "emit-before-success", []ssa.Instruction{evs[0]}, c.successReturns())
		} else {
			r.fail("T-eq", "T-eq/sendMessage/emit-sites", c.pos(), fmt.Sprintf("%d emit sites", len(evs)))
		}
	}
	for _, row := range []struct{ h, caller, resp string }{
		{"SendMessage", "buf(32){}", "types.MsgSendMessageResponse"},
		{"SendMessageWithCaller", "p2.DestinationCaller", "types.MsgSendMessageWithCallerResponse"},
	} {
		c := p.fc(r, handlerFn(p, row.h), row.h, abFrom)
		if c == nil {
			continue
		}
		if call := c.oneCall("T-eq", "k.sendMessage"); call != nil {
			want := []string{"ctx", "p2.DestinationDomain", "p2.Recipient", row.caller, "SENDER32", "RES.Nonce", "p2.MessageBody"}
			a := c.args(call)
			for i, w := range want {
				if i < len(a) {
					c.teq("T-eq", fmt.Sprintf("sendMessage.arg%d", i), a[i], w, p.instrPos(call))
				}
			}
			c.mustPass("G-mpt", "send-before-success", []ssa.Instruction{call}, c.successReturns())
		}
		for _, sr := range c.successResults() {
			ret := sr.ret
			c.checkLit("T-eq", "response", sr.vals[0], row.resp, map[string]string{"Nonce": "RES.Nonce"}, p.instrPos(ret))
		}
	}
	// deposit handlers: bindings and response
	for _, row := range []struct{ h, caller, resp string }{
		{"DepositForBurn", "buf(0){}", "types.MsgDepositForBurnResponse"},
		{"DepositForBurnWithCaller", "p2.DestinationCaller", "types.MsgDepositForBurnWithCallerResponse"},
	} {
		c := p.fc(r, handlerFn(p, row.h), row.h, [][2]string{{"DFB", "k.depositForBurn(ctx,p2.From,p2.Amount,p2.DestinationDomain,p2.MintRecipient,p2.BurnToken," + row.caller + ")"}})
		if c == nil {
			continue
		}
		if call := c.oneCall("T-eq", "k.depositForBurn"); call != nil {
			want := []string{"ctx", "p2.From", "p2.Amount", "p2.DestinationDomain", "p2.MintRecipient", "p2.BurnToken", row.caller}
			a := c.args(call)
			for i, w := range want {
				if i < len(a) {
					c.teq("T-eq", fmt.Sprintf("depositForBurn.arg%d", i), a[i], w, p.instrPos(call))
				}
			}
		}
		for _, sr := range c.successResults() {
			ret := sr.ret
			c.checkLit("T-eq", "response", sr.vals[0], row.resp, map[string]string{"Nonce": "DFB#0"}, p.instrPos(ret))
			c.teq("T-eq", "response.err", c.sh(sr.vals[1].String()), "DFB#1", p.instrPos(ret))
		}
	}
	if c := p.fc(r, p.Func("keeper.msgServer.depositForBurn"), "depositForBurn", abDFB[:9]); c != nil {
		if call := c.oneCall("T-eq", "(*types.BurnMessage).Bytes"); call != nil {
			c.checkLit("T-eq", "BurnMessage", c.argTerms(call)[0], "types.BurnMessage", map[string]string{
				"BurnToken": "TOKHASH", "MintRecipient": "p5", "Amount": "p3", "MessageSender": "SENDER32"}, p.instrPos(call))
		}
		c.teq("T-kind", "burn-token-kind(body)", c.sh("ethcrypto.Keccak256([]byte(strings.ToLower(p6)))"), "TOKHASH", c.pos())
		if sm := c.oneCall("T-eq", "k.SendMessage"); sm != nil {
			c.checkLit("T-eq", "MsgSendMessage", c.argTerms(sm)[1], "types.MsgSendMessage", map[string]string{
				"From": "MODADDR", "DestinationDomain": "p4", "Recipient": "TM#0.Address", "MessageBody": "BODY#0"}, p.instrPos(sm))
		}
		if smc := c.oneCall("T-eq", "k.SendMessageWithCaller"); smc != nil {
			c.checkLit("T-eq", "MsgSendMessageWithCaller", c.argTerms(smc)[1], "types.MsgSendMessageWithCaller", map[string]string{
				"From": "MODADDR", "DestinationDomain": "p4", "Recipient": "TM#0.Address", "MessageBody": "BODY#0", "DestinationCaller": "p7"}, p.instrPos(smc))
		}
		c.ab = abDFB[:12]
		evs := emitCalls(c)
		if len(evs) == 1 {
			c.checkLit("T-eq", "DepositForBurn-event", c.argTerms(evs[0])[0], "types.DepositForBurn", map[string]string{
				"Nonce": "phi(SM#0.Nonce|SMC#0.Nonce)", "BurnToken": "encoding/hex.EncodeToString(TOKHASH)", "Amount": "p3", "Depositor": "p2", "MintRecipient": "p5",
				"DestinationDomain": "p4", "DestinationTokenMessenger": "TM#0.Address", "DestinationCaller": "p7"}, p.instrPos(evs[0]))
			c.mustPass("G-mpt", "event-before-success", []ssa.Instruction{evs[0]}, c.successReturns())
		} else {
			r.fail("T-eq", "T-eq/depositForBurn/event-sites", c.pos(), fmt.Sprintf("%d event sites", len(evs)))
		}
		for _, sr := range c.successResults() {
			ret := sr.ret
			c.teq("T-eq", "returned-nonce", c.sh(sr.vals[0].String()), "phi(SM#0.Nonce|SMC#0.Nonce)", p.instrPos(ret))
		}
	}
	if c := p.fc(r, handlerFn(p, "ReplaceDepositForBurn"), "ReplaceDepositForBurn", abRPM[:8]); c != nil {
		evs := emitCalls(c)
		if len(evs) == 1 {
			c.checkLit("T-eq", "DepositForBurn-event", c.argTerms(evs[0])[0], "types.DepositForBurn", map[string]string{
				"Nonce": "M.Nonce", "BurnToken": "encoding/hex.EncodeToString(B.BurnToken)", "Amount": "B.Amount", "Depositor": "p2.From", "MintRecipient": "p2.NewMintRecipient",
				"DestinationDomain": "M.DestinationDomain", "DestinationTokenMessenger": "M.Recipient", "DestinationCaller": "p2.NewDestinationCaller"}, p.instrPos(evs[0]))
			c.mustPass("G-mpt", "event-before-success", []ssa.Instruction{evs[0]}, c.successReturns())
		} else {
			r.fail("T-eq", "T-eq/ReplaceDepositForBurn/event-sites", c.pos(), fmt.Sprintf("%d event sites", len(evs)))
		}
	}
	// the burn token carried by a parsed body is the 32-byte slot written by the encoder (C16) — kind: TokenHash
	if pc := p.fc(r, p.Func("types.*BurnMessage.Parse"), "BurnMessage.Parse", nil); pc != nil {
		st := storesThrough(pc, pc.fn.Params[0])
		pc.teq("T-kind", "parsed-burn-token-is-the-hash-slot", st["BurnToken"], "p1[4:36]", pc.pos())
	}
}

// ---------------------------------------------------------------------------
// C07

func init() { register("C07", "other", runC07) }

const nonceRegion = "NextAvailableNonce/value/"

func runC07(p *Prog, r *Report, tier string) {
	r.Rule = "T-eq of the counter update; CG-callers + G-once of the reservation; flow of the reserved value; CG-unreach from replacements; F-writers of the counter"
	r.Explanation = "Decided: ReserveAndIncrementNonce reads the counter under key K, stores Nonce{old.Nonce + 1} under the same K and returns the value it read; it is called only by SendMessage and SendMessageWithCaller, once each (one site, not in a loop, on every success path); " +
		"the reserved value is the nonce argument of sendMessage (which puts it in the header, C06) and the response nonce; ReplaceMessage passes the original message's nonce and neither replacement can reach the reservation or any write of the counter; " +
		"the counter's only other writer is SetNextAvailableNonce, called only by InitGenesis; the query returns the getter's value. " +
		"Not decided: the SDK discarding the increment when the send fails after the reservation; the induction over histories (start + number of successes) follows from these shapes; wrap-around at 2^64."
	r.Assumptions = []string{"go/ssa faithfully represents the module code", "cosmos-sdk discards the state branch of a failed message", "transactions execute sequentially within a block"}
	r.Trusted = r.Assumptions
	ctxDiscipline(p, r, txRoots(p, "DepositForBurn", "DepositForBurnWithCaller", "SendMessage", "SendMessageWithCaller", "ReplaceMessage", "ReplaceDepositForBurn"))

	get := "(prefix.Store).Get(" + prefixStore(nonceRegion) + `,[]byte("NextAvailableNonce/value/"))`
	res := p.Func("keeper.Keeper.ReserveAndIncrementNonce")
	if c := p.fc(r, res, "ReserveAndIncrementNonce", [][2]string{{"GET", get}}); c != nil {
		var rd, wr []Effect
		for _, e := range p.own(res) {
			switch e.Kind {
			case "R":
				rd = append(rd, e)
			case "W", "D":
				wr = append(wr, e)
			}
		}
		if len(rd) == 1 && len(wr) == 1 {
			c.teq("T-eq", "same-key", wr[0].Key.String(), rd[0].Key.String(), p.instrPos(wr[0].In))
			c.teq("T-eq", "read-region", rd[0].Region, nonceRegion, p.instrPos(rd[0].In))
			c.teq("T-eq", "stored", c.sh(wr[0].Val.String()), "k.cdc.MustMarshal(&types.Nonce{Nonce:(decode(GET).Nonce + 1)})", p.instrPos(wr[0].In))
		} else {
			r.fail("T-eq", "T-eq/ReserveAndIncrementNonce/shape", c.pos(), fmt.Sprintf("%d reads and %d writes, expected 1 and 1", len(rd), len(wr)))
		}
		rets := allReturns(res)
		if len(rets) == 1 {
			c.teq("T-eq", "returns-old", c.term(rets[0].Results[0], rets[0]), "decode(GET)", p.instrPos(rets[0]))
		} else {
			r.fail("T-eq", "T-eq/ReserveAndIncrementNonce/returns", c.pos(), fmt.Sprintf("%d returns", len(rets)))
		}
	}
	callers := p.callerNames(res)
	r.check(sameSet(callers, []string{"(keeper.msgServer).SendMessage", "(keeper.msgServer).SendMessageWithCaller"}), "CG-callers", "CG-callers/ReserveAndIncrementNonce", "",
		fmt.Sprintf("callers = %v", callers), fmt.Sprintf("callers of the nonce reservation are %v", callers))
	for _, n := range []string{"SendMessage", "SendMessageWithCaller"} {
		c := p.fc(r, handlerFn(p, n), n, abFrom)
		if c == nil {
			continue
		}
		rs := c.calls("k.ReserveAndIncrementNonce")
		if len(rs) != 1 {
			r.fail("G-once", "G-once/"+n+"/reserve", c.pos(), fmt.Sprintf("%d reservation sites, expected exactly 1", len(rs)))
			continue
		}
		r.check(!c.onCycle(rs[0]), "G-once", "G-once/"+n+"/reserve", p.instrPos(rs[0]), "single reservation, not in a loop", "reservation inside a loop")
		c.mustPass("G-mpt", "reserve-on-every-success-path", []ssa.Instruction{rs[0]}, c.successReturns())
		if call := c.oneCall("T-eq", "k.sendMessage"); call != nil {
			c.teq("T-eq", "nonce-argument", c.args(call)[5], "RES.Nonce", p.instrPos(call))
		}
		for _, sr := range c.successResults() {
			ret := sr.ret
			_, f, ok := c.litFields(sr.vals[0])
			if ok {
				c.teq("T-eq", "response-nonce", f["Nonce"], "RES.Nonce", p.instrPos(ret))
			} else {
				r.undecided("T-eq", "T-eq/"+n+"/response-nonce", p.instrPos(ret), "response is not a literal")
			}
		}
	}
	if c := p.fc(r, p.Func("keeper.msgServer.sendMessage"), "sendMessage", nil); c != nil {
		if call := c.oneCall("T-eq", "(*types.Message).Bytes"); call != nil {
			_, f, ok := c.litFields(c.argTerms(call)[0])
			if ok {
				c.teq("T-eq", "header-nonce", f["Nonce"], "p6", p.instrPos(call))
			}
		}
	}
	// replacements
	for _, n := range []string{"ReplaceMessage", "ReplaceDepositForBurn"} {
		fn := handlerFn(p, n)
		touched := false
		for _, e := range p.closure(fn) {
			if e.Region == nonceRegion && (e.Kind == "W" || e.Kind == "D" || e.Kind == "R") {
				touched = true
			}
		}
		r.check(!touched, "CG-unreach", "CG-unreach/"+n+"/counter", "", n+" cannot reach any access to the nonce counter", n+" can reach the outbound nonce counter")
	}
	if c := p.fc(r, handlerFn(p, "ReplaceMessage"), "ReplaceMessage", abRPM); c != nil {
		if call := c.oneCall("T-eq", "k.sendMessage"); call != nil {
			c.teq("T-eq", "reuses-original-nonce", c.args(call)[5], "M.Nonce", p.instrPos(call))
		}
	}
	const S = "(keeper.Keeper)."
	writersRule(p, r, nonceRegion, []string{"W:" + S + "ReserveAndIncrementNonce", "W:" + S + "SetNextAvailableNonce"}, map[string][]string{
		"W:" + S + "SetNextAvailableNonce": {"cctp.InitGenesis"}})
	foundGetterContract(p, r, "GetNextAvailableNonce", nonceRegion, `[]byte("NextAvailableNonce/value/")`, "types.Nonce{}")
	if c := p.fc(r, p.Func("keeper.Keeper.NextAvailableNonce"), "query.NextAvailableNonce", nil); c != nil {
		for _, sr := range c.successResults() {
			ret := sr.ret
			c.checkLit("T-eq", "response", sr.vals[0], "types.QueryGetNextAvailableNonceResponse", map[string]string{"Nonce": "k.GetNextAvailableNonce(ctx)#0"}, p.instrPos(ret))
		}
		g := []Atom{A("k.GetNextAvailableNonce(ctx)#1")}
		c.requireCut("G-cut", "found", g, c.successReturns())
	}
}

// ---------------------------------------------------------------------------
// C09

func init() { register("C09", "other", runC09) }

func runC09(p *Prog, r *Report, tier string) {
	r.Rule = "guards (G-cut/G-fail/G-exact) and argument bindings (T-eq) of both replacements; empty write/ledger effect sets"
	r.Explanation = "Decided: ReplaceMessage re-emits only behind: send pause off, threshold found, the verifier returned nil on (msg.OriginalMessage, msg.OriginalAttestation, current attesters, current threshold), the same bytes parsed, msg.From parsed, original sender == pad32(msg.From), original source domain == 4; " +
		"it calls sendMessage with (original destination domain, original recipient, NEW caller, original sender, original nonce, NEW body). ReplaceDepositForBurn re-emits only behind: mint/burn pause off, header and body parsed, msg.From parsed, body depositor == pad32(msg.From), new recipient not 32 zero bytes; " +
		"its new body is {original version, original burn token, NEW mint recipient, original amount, original depositor}; it calls ReplaceMessage in the module's name with the original message and attestation, the new body and the new caller, and propagates its error. " +
		"Neither can reach a store write, a delete or a ledger request; their events are a subset of {MessageSent, DepositForBurn}. There is no other rejection. Not decided: attestation validity itself (C01)."
	r.Assumptions = []string{"go/ssa faithfully represents the module code", "VerifyAttestationSignatures is sound (C01)"}
	r.Trusted = r.Assumptions
	ctxDiscipline(p, r, txRoots(p, "ReplaceMessage", "ReplaceDepositForBurn"))

	parseContracts(p, r)
	if c := p.fc(r, handlerFn(p, "ReplaceMessage"), "ReplaceMessage", abRPM); c != nil {
		sm := c.oneCall("T-eq", "k.sendMessage")
		all := union(c.effectSites(), c.successReturns())
		rejects := applyRows(c, []guardRow{
			{"threshold-found", []Atom{A("k.GetSignatureThreshold(ctx)#1")}, all},
			{"attestation-valid", []Atom{A("(VAS == nil)")}, all},
			{"header-parsed", []Atom{A("(MP#1 == nil)")}, all},
			{"from-valid", []Atom{A("(nil == ACC#1)")}, all},
			{"sender==submitter", []Atom{A("bytes.Equal(M.Sender,SENDER32)")}, all},
			{"source-domain==4", []Atom{A("(M.SourceDomain == 4)")}, all},
		})
		c.requireCut("G-cut", "send-not-paused", notPaused(flagSR), all)
		c.requireFailArm("G-fail", "send-not-paused", notPaused(flagSR), false)
		rejects = append(rejects, A("k.GetSendingAndReceivingMessagesPaused(ctx)#0.Paused"), A("k.GetSendingAndReceivingMessagesPaused(ctx)#1"))
		c.exact("G-exact", rejects)
		if vas := c.oneCall("T-eq", "keeper.VerifyAttestationSignatures"); vas != nil {
			a := c.args(vas)
			c.teq("T-eq", "verified-bytes", a[0], "p2.OriginalMessage", p.instrPos(vas))
			c.teq("T-eq", "attestation", a[1], "p2.OriginalAttestation", p.instrPos(vas))
			c.teq("T-eq", "attesters", a[2], "k.GetAllAttesters(ctx)", p.instrPos(vas))
			c.teq("T-eq", "threshold", a[3], "k.GetSignatureThreshold(ctx)#0.Amount", p.instrPos(vas))
		}
		if mp := c.oneCall("T-eq", "(*types.Message).Parse"); mp != nil {
			c.teq("T-eq", "parsed-bytes", c.args(mp)[1], "p2.OriginalMessage", p.instrPos(mp))
		}
		if sm != nil {
			want := []string{"ctx", "M.DestinationDomain", "M.Recipient", "p2.NewDestinationCaller", "M.Sender", "M.Nonce", "p2.NewMessageBody"}
			for i, w := range want {
				c.teq("T-eq", fmt.Sprintf("sendMessage.arg%d", i), c.args(sm)[i], w, p.instrPos(sm))
			}
			c.mustPass("G-mpt", "send-before-success", []ssa.Instruction{sm}, c.successReturns())
		}
	}
	if c := p.fc(r, handlerFn(p, "ReplaceDepositForBurn"), "ReplaceDepositForBurn", abRPM); c != nil {
		all := union(c.effectSites(), c.successReturns())
		rpm := c.instrs(c.calls("RPM"))
		if len(rpm) == 0 {
			rpm = c.instrs(c.calls("k.ReplaceMessage"))
		}
		rejects := applyRows(c, []guardRow{
			{"header-parsed", []Atom{A("(MP#1 == nil)")}, all},
			{"body-parsed", []Atom{A("(BP#1 == nil)")}, all},
			{"from-valid", []Atom{A("(nil == ACC#1)")}, all},
			{"depositor==submitter", []Atom{A("bytes.Equal(B.MessageSender,SENDER32)")}, all},
			{"new-recipient-non-zero", []Atom{A("!bytes.Equal(buf(32){},p2.NewMintRecipient)")}, all},
			{"body-encoded", []Atom{A("(NEWBODY#1 == nil)")}, all},
			{"inner-replace-ok", []Atom{A("(RPM#1 == nil)")}, union(c.instrs(emitCalls(c)), c.successReturns())},
		})
		c.requireCut("G-cut", "mint-burn-not-paused", notPaused(flagBM), all)
		c.requireFailArm("G-fail", "mint-burn-not-paused", notPaused(flagBM), false)
		rejects = append(rejects, A("k.GetBurningAndMintingPaused(ctx)#0.Paused"), A("k.GetBurningAndMintingPaused(ctx)#1"))
		c.exact("G-exact", rejects)
	}
	rdfbBodyObligations(p, r)
	for _, n := range []string{"ReplaceMessage", "ReplaceDepositForBurn"} {
		fn := handlerFn(p, n)
		var bad []string
		evs := map[string]bool{}
		for _, e := range p.closure(fn) {
			switch e.Kind {
			case "W", "D":
				bad = append(bad, e.String())
			case "LEDGER":
				bad = append(bad, e.String())
			case "EVENT":
				evs[e.Region] = true
			}
		}
		r.check(len(bad) == 0, "F-set", "F-set/"+n+"/no-write-no-ledger", "", n+" has no store write, delete or ledger effect", fmt.Sprintf("%s can now: %v", n, bad))
		for ev := range evs {
			okEv := ev == "*types.MessageSent" || (ev == "*types.DepositForBurn" && n == "ReplaceDepositForBurn")
			r.check(okEv, "F-set", "F-set/"+n+"/event/"+ev, "", "documented event", n+" emits undocumented event "+ev)
		}
	}
}

// rdfbBodyObligations: the replacement body of ReplaceDepositForBurn keeps version, burn token,
// amount and depositor of the original (attested) body and only takes the new mint recipient;
// that body — and nothing else — is what the inner ReplaceMessage re-emits.
func rdfbBodyObligations(p *Prog, r *Report) {
	c := p.fc(r, handlerFn(p, "ReplaceDepositForBurn"), "ReplaceDepositForBurn", abRPM[:8])
	if c == nil {
		return
	}
	if bc := c.oneCall("T-eq", "(*types.BurnMessage).Bytes"); bc != nil {
		c.checkLit("T-eq", "new-body", c.argTerms(bc)[0], "types.BurnMessage", map[string]string{
			"Version": "B.Version", "BurnToken": "B.BurnToken", "MintRecipient": "p2.NewMintRecipient", "Amount": "B.Amount", "MessageSender": "B.MessageSender"}, p.instrPos(bc))
	}
	c.ab = abRPM[:10]
	if bp := c.oneCall("T-eq", "(*types.BurnMessage).Parse"); bp != nil {
		c.teq("T-eq", "parsed-body", c.args(bp)[1], "M.MessageBody", p.instrPos(bp))
	}
	if rc := c.oneCall("T-eq", "k.ReplaceMessage"); rc != nil {
		c.checkLit("T-eq", "inner-replace", c.argTerms(rc)[1], "types.MsgReplaceMessage", map[string]string{
			"From": "MODADDR", "OriginalMessage": "p2.OriginalMessage", "OriginalAttestation": "p2.OriginalAttestation", "NewMessageBody": "NEWBODY#0", "NewDestinationCaller": "p2.NewDestinationCaller"}, p.instrPos(rc))
		c.mustPass("G-mpt", "inner-replace-before-success", []ssa.Instruction{rc}, c.successReturns())
	}
	if mp := c.oneCall("T-eq", "(*types.Message).Parse"); mp != nil {
		c.teq("T-eq", "parsed-bytes", c.args(mp)[1], "p2.OriginalMessage", p.instrPos(mp))
	}
}

// ---------------------------------------------------------------------------
// C14

func init() { register("C14", "other", runC14) }

// errValueOf returns the error-typed result value of a call (or nil).
func errValueOf(call *ssa.Call) (ssa.Value, bool) {
	T := call.Type()
	if tup, ok := T.(*types.Tuple); ok {
		if tup.Len() == 0 {
			return nil, false
		}
		last := tup.At(tup.Len() - 1)
		if !isErrorType(last.Type()) {
			return nil, false
		}
		// find the Extract of the last component
		if refs := call.Referrers(); refs != nil {
			for _, r := range *refs {
				if ex, ok := r.(*ssa.Extract); ok && ex.Index == tup.Len()-1 {
					return ex, true
				}
			}
		}
		return nil, true // error result exists but is never extracted
	}
	if isErrorType(T) {
		return call, true
	}
	return nil, false
}

// errPropagated: the error value is returned as the function's error result, or
// nil-tested with every exit of the non-nil arm an error exit, or wrapped and returned.
func (p *Prog) errPropagated(x *TX, v ssa.Value) (bool, string) {
	refs := v.Referrers()
	if refs == nil || len(*refs) == 0 {
		return false, "the error result is never used (dropped)"
	}
	handled := false
	swallowed := false
	why := "the error result is used only for formatting or is overwritten"
	for _, r := range *refs {
		switch r := r.(type) {
		case *ssa.Return:
			if ev := errResult(r); ev == v {
				handled = true
			}
		case *ssa.BinOp:
			c, ok := r.Y.(*ssa.Const)
			other := r.X
			if !ok {
				c, ok = r.X.(*ssa.Const)
				other = r.Y
			}
			if !ok || c.Value != nil || other != v {
				continue
			}
			brefs := r.Referrers()
			if brefs == nil {
				continue
			}
			for _, br := range *brefs {
				iff, ok := br.(*ssa.If)
				if !ok {
					continue
				}
				slot := 0
				if r.Op.String() == "==" {
					slot = 1
				}
				start := iff.Block().Succs[slot]
				reach := reachFrom([]*ssa.BasicBlock{start}, nil)
				okArm := true
				for rb := range reach {
					for _, in := range rb.Instrs {
						if ret, ok := in.(*ssa.Return); ok {
							if k := p.exitKind(x, ret); k != "error" {
								okArm = false
								why = fmt.Sprintf("after `err != nil` the handler can still reach a non-error return at %s", p.instrPos(ret))
							}
						}
					}
				}
				if okArm {
					handled = true
				} else {
					swallowed = true
				}
			}
		case *ssa.Phi:
			// merged into a value that is returned
			if ok, _ := p.errPropagated(x, r); ok {
				handled = true
			}
		case *ssa.Call:
			// passed to a wrapper whose result is propagated
			if callee := r.Call.StaticCallee(); callee != nil {
				n := funcName(callee)
				if n == "sdkerrors.Wrap" || n == "sdkerrors.Wrapf" {
					if len(r.Call.Args) > 0 && r.Call.Args[0] == v {
						if ok, _ := p.errPropagated(x, r); ok {
							handled = true
						}
					}
				}
			}
		}
	}
	if swallowed {
		return false, why
	}
	return handled, why
}

func runC14(p *Prog, r *Report, tier string) {
	r.Rule = "E-prop for every error-returning call reachable from a transaction handler; post-effect exit classification with G-mpt of the required effects"
	r.Explanation = "Decided: in every module function reachable from the 25 transaction handlers, each call whose result includes an error (bank, fiat-token-factory, codecs, bech32, event emission, inner handlers, the verifier) has that error either returned as the function's error, or nil-tested with every exit of the non-nil arm a non-nil error return; none is dropped or swallowed. " +
		"In depositForBurn, ReceiveMessage, sendMessage, SendMessage(WithCaller), ReplaceMessage and ReplaceDepositForBurn every return reachable after the first effect is either an error exit or the single success exit, which lies behind all required effects " +
		"(deposit: debit, burn, inner send, event; receive: nonce mark, MessageReceived, and Mint on the module branch; send: reservation and MessageSent). So no path reports success after a failed dependency and every late validation failure surfaces as an error. " +
		"Not decided: that the SDK discards the message branch (state, ledger calls made through the same context, events) when the handler returns an error — that is what turns an error exit into 'exactly as before'."
	r.Assumptions = []string{"go/ssa faithfully represents the module code", "cosmos-sdk baseapp discards the cached state and events of a message that returns an error", "bank and fiat-token-factory write through the same cached context"}
	r.Trusted = r.Assumptions
	ctxDiscipline(p, r, allTxRoots(p))

	// functions reachable from tx handlers
	reach := map[*ssa.Function]bool{}
	var visit func(fn *ssa.Function)
	visit = func(fn *ssa.Function) {
		if fn == nil || reach[fn] {
			return
		}
		reach[fn] = true
		for _, ce := range p.effects(fn).calls {
			visit(ce.Callee)
		}
	}
	for _, h := range p.txHandlers() {
		visit(h.Fn)
	}
	nCalls := 0
	for _, fn := range p.Funcs {
		if !reach[fn] {
			continue
		}
		x := p.tx(fn)
		seenName := map[string]int{}
		for _, b := range fn.Blocks {
			for _, in := range b.Instrs {
				call, ok := in.(*ssa.Call)
				if !ok {
					continue
				}
				ev, has := errValueOf(call)
				if !has {
					continue
				}
				name := callNameOf(x, call)
				if name == "sdkerrors.Wrap" || name == "sdkerrors.Wrapf" || name == "status.Error" || name == "fmt.Errorf" {
					continue // error constructors, judged where their result goes
				}
				nCalls++
				seenName[name]++
				key := fmt.Sprintf("E-prop/%s/%s", funcName(fn), name)
				if seenName[name] > 1 {
					key += fmt.Sprintf("#%d", seenName[name])
				}
				if ev == nil {
					r.fail("E-prop", key, p.instrPos(call), "error result of "+name+" is discarded")
					continue
				}
				ok2, why := p.errPropagated(x, ev)
				r.check(ok2, "E-prop", key, p.instrPos(call), "error of "+name+" is propagated", "error of "+name+" in "+funcName(fn)+" is not propagated: "+why)
			}
		}
	}
	r.floor("error-returning-calls", nCalls, 40)

	// post-effect exits
	type req struct {
		fn    *ssa.Function
		label string
		ab    [][2]string
		need  [][]string // each group: one of these calls must precede success
	}
	reqs := []req{
		{p.Func("keeper.msgServer.depositForBurn"), "depositForBurn", nil, [][]string{{"k.bank.SendCoinsFromAccountToModule"}, {"k.fiattokenfactory.Burn"}, {"k.SendMessage", "k.SendMessageWithCaller"}, {"(sdk.Context).EventManager(ctx).EmitTypedEvent"}}},
		{handlerFn(p, "ReceiveMessage"), "ReceiveMessage", nil, [][]string{{"k.SetUsedNonce"}, {"(sdk.Context).EventManager(ctx).EmitTypedEvent"}}},
		{p.Func("keeper.msgServer.sendMessage"), "sendMessage", nil, [][]string{{"(sdk.Context).EventManager(ctx).EmitTypedEvent"}}},
		{handlerFn(p, "SendMessage"), "SendMessage", nil, [][]string{{"k.ReserveAndIncrementNonce"}, {"k.sendMessage"}}},
		{handlerFn(p, "SendMessageWithCaller"), "SendMessageWithCaller", nil, [][]string{{"k.ReserveAndIncrementNonce"}, {"k.sendMessage"}}},
		{handlerFn(p, "ReplaceMessage"), "ReplaceMessage", nil, [][]string{{"k.sendMessage"}}},
		{handlerFn(p, "ReplaceDepositForBurn"), "ReplaceDepositForBurn", nil, [][]string{{"k.ReplaceMessage"}, {"(sdk.Context).EventManager(ctx).EmitTypedEvent"}}},
		{handlerFn(p, "DepositForBurn"), "DepositForBurn", nil, [][]string{{"k.depositForBurn"}}},
		{handlerFn(p, "DepositForBurnWithCaller"), "DepositForBurnWithCaller", nil, [][]string{{"k.depositForBurn"}}},
	}
	for _, q := range reqs {
		c := p.fc(r, q.fn, q.label, q.ab)
		if c == nil {
			continue
		}
		succ := c.successReturns()
		r.check(len(succ) == 1, "post-effect-exit", "post-effect-exit/"+q.label+"/single-success-exit", c.pos(), "exactly one success-capable return", fmt.Sprintf("%d success-capable returns", len(succ)))
		for _, grp := range q.need {
			var via []ssa.Instruction
			for _, n := range grp {
				via = append(via, c.instrs(c.calls(n))...)
			}
			c.mustPass("post-effect-exit", "success-behind/"+strings.Join(grp, "|"), via, succ)
		}
		// every other return reachable after an effect site is an error exit (all non-success returns are, by construction of successReturns)
		nErr := 0
		for _, ret := range allReturns(c.fn) {
			if p.exitKind(c.x, ret) == "error" {
				nErr++
			}
		}
		r.ok("post-effect-exit", "post-effect-exit/"+q.label+"/other-exits-are-errors", c.pos(), fmt.Sprintf("%d error exits, 1 success exit", nErr))
	}
	// receive: the module branch succeeds only behind a successful Mint
	if c := rmCtx(p, r); c != nil {
		if start := moduleBranchStart(c); start != nil {
			mint := c.calls("k.fiattokenfactory.Mint")
			g := []Atom{A("(MINT#1 == nil)")}
			c.requireCutFrom("post-effect-exit", "module-branch-success-behind-mint-ok", start, g, c.successReturns())
			_ = mint
		}
	}
	// the success exit of a deposit carries the outcome of its last step, the event emission:
	// it returns the emission's error itself, or returns nil only behind `emit error == nil`
	if c := p.fc(r, p.Func("keeper.msgServer.depositForBurn"), "depositForBurn", nil); c != nil {
		var emits []*ssa.Call
		for _, e := range p.own(c.fn) {
			if call, ok := e.In.(*ssa.Call); ok && e.Kind == "EVENT" {
				emits = append(emits, call)
			}
		}
		for _, s := range c.successReturns() {
			ret := s.(*ssa.Return)
			ev := errResult(ret)
			ok := false
			if call, isCall := ev.(*ssa.Call); isCall {
				for _, e := range emits {
					ok = ok || e == call
				}
			} else if k, isConst := ev.(*ssa.Const); isConst && k.Value == nil && len(emits) == 1 {
				g := eqAtom(c.x.Of(emits[0], emits[0]), mk("const", "nil"), true, "==")
				ok = cutQuery(c.fn, c.ifs, []Atom{g}, []ssa.Instruction{ret}).Holds
			}
			r.check(ok, "post-effect-exit", "post-effect-exit/depositForBurn/success-returns-emit-error", p.instrPos(ret), "the success return carries the event emission's outcome (its error, or nil only behind a nil-check of it)", "a success return reports nil without regard to the error of the event emission")
		}
	}
}
