package main

import (
	"encoding/json"
	"fmt"
	"os"
	"path/filepath"
	"runtime/debug"
	"sort"
	"strconv"
	"strings"
	"time"
)

// Ob is one proof obligation: a rule instance about a named construct.
type Ob struct {
	Key    string `json:"key"`    // rule/function/construct — never a line number
	Rule   string `json:"rule"`   // rule family
	Status string `json:"status"` // discharged | violated | undecided
	Pos    string `json:"pos,omitempty"`
	Detail string `json:"detail,omitempty"`
	Path   string `json:"path,omitempty"`
}

type Report struct {
	Prop        string
	Level       string
	Obs         []*Ob
	keys        map[string]bool
	Explanation string
	Rule        string
	Assumptions []string
	Trusted     []string
	Extra       map[string]interface{}
}

func newReport(prop, level string) *Report {
	return &Report{Prop: prop, Level: level, keys: map[string]bool{}, Extra: map[string]interface{}{}}
}

func (r *Report) add(status, rule, key, pos, detail string) *Ob {
	full := r.Prop + "/" + key
	if r.keys[full] {
		// duplicate keys get a numeric suffix (stable order of discovery)
		for i := 2; ; i++ {
			k := full + "#" + strconv.Itoa(i)
			if !r.keys[k] {
				full = k
				break
			}
		}
	}
	r.keys[full] = true
	ob := &Ob{Key: full, Rule: rule, Status: status, Pos: pos, Detail: detail}
	r.Obs = append(r.Obs, ob)
	return ob
}

func (r *Report) ok(rule, key, pos, detail string) *Ob {
	return r.add("discharged", rule, key, pos, detail)
}
func (r *Report) fail(rule, key, pos, detail string) *Ob {
	return r.add("violated", rule, key, pos, detail)
}
func (r *Report) undecided(rule, key, pos, detail string) *Ob {
	return r.add("undecided", rule, key, pos, detail)
}

// check records ok or fail depending on cond.
func (r *Report) check(cond bool, rule, key, pos, okDetail, failDetail string) bool {
	if cond {
		r.ok(rule, key, pos, okDetail)
	} else {
		r.fail(rule, key, pos, failDetail)
	}
	return cond
}

// floor asserts an instance count confirmed by hand on the reference tree.
func (r *Report) floor(what string, got, want int) {
	if os.Getenv("VERIF_FLOORS") != "" {
		fmt.Fprintf(os.Stderr, "FLOOR %s %s got=%d floor=%d\n", r.Prop, what, got, want)
	}
	r.check(got >= want, "instance-floor", "floor/"+what, "", fmt.Sprintf("%d instances of %s (floor %d)", got, what, want),
		fmt.Sprintf("only %d instances of %s, expected at least %d: the rule would pass vacuously", got, what, want))
}

// ---------------------------------------------------------------------------

type knownFindings struct {
	Known []struct {
		Property string `json:"property"`
		Key      string `json:"key"`
		What     string `json:"what"`
	} `json:"known"`
}

func loadKnown(path string) map[string]string {
	out := map[string]string{}
	bz, err := os.ReadFile(path)
	if err != nil {
		return out
	}
	var kf knownFindings
	if json.Unmarshal(bz, &kf) != nil {
		return out
	}
	for _, k := range kf.Known {
		out[k.Key] = k.What
	}
	return out
}

type propDef struct {
	ID    string
	Level string
	Run   func(p *Prog, r *Report, tier string)
}

var registry = map[string]*propDef{}

func register(id, level string, run func(p *Prog, r *Report, tier string)) {
	registry[id] = &propDef{ID: id, Level: level, Run: run}
}

func propIDs(spec string) []string {
	if spec == "all" {
		var ids []string
		for id := range registry {
			ids = append(ids, id)
		}
		sort.Strings(ids)
		return ids
	}
	return strings.Split(spec, ",")
}

func runProps(p *Prog, spec, tier, evdir, replaydir, knownPath, replay string, quiet bool, start time.Time) int {
	known := loadKnown(knownPath)
	exit := 0
	var only map[string]bool
	if replay != "" {
		only = map[string]bool{}
		bz, err := os.ReadFile(replay)
		if err == nil {
			var rp struct {
				Obligations []Ob `json:"obligations"`
			}
			if json.Unmarshal(bz, &rp) == nil {
				for _, o := range rp.Obligations {
					only[o.Key] = true
				}
			}
		}
	}
	for _, id := range propIDs(spec) {
		def := registry[id]
		t0 := time.Now()
		var r *Report
		if def == nil {
			r = newReport(id, "other")
			r.fail("registry", "unknown-property", "", "no check registered for "+id)
		} else {
			r = newReport(id, def.Level)
			func() {
				defer func() {
					if rec := recover(); rec != nil {
						r.fail("checker-panic", "panic", "", fmt.Sprintf("checker panicked: %v\n%s", rec, debug.Stack()))
					}
				}()
				commonObligations(p, r)
				def.Run(p, r, tier)
			}()
		}
		wall := time.Since(t0).Seconds()
		if len(propIDs(spec)) == 1 {
			wall = time.Since(start).Seconds()
		}
		bad := writeEvidence(p, r, tier, evdir, replaydir, known, only, wall, quiet)
		if bad {
			exit = 1
		}
	}
	return exit
}

func writeEvidence(p *Prog, r *Report, tier, evdir, replaydir string, known map[string]string, only map[string]bool, wall float64, quiet bool) bool {
	var bad []*Ob
	discharged, knownHits := 0, 0
	for _, o := range r.Obs {
		if only != nil && !only[o.Key] {
			continue
		}
		switch o.Status {
		case "discharged":
			discharged++
		default:
			if what, ok := known[o.Key]; ok && o.Status == "violated" {
				fmt.Printf("KNOWN-FINDING: property=%s %s [%s]\n", r.Prop, what, o.Key)
				knownHits++
				continue
			}
			bad = append(bad, o)
		}
	}
	total := len(r.Obs)
	if !quiet || len(bad) > 0 {
		fmt.Printf("%s: %d obligations, %d discharged, %d known findings, %d failing (%.1fs)\n", r.Prop, total, discharged, knownHits, len(bad), wall)
	}
	for _, o := range bad {
		fmt.Printf("  %s %s  [%s] %s\n      %s\n", strings.ToUpper(o.Status), o.Key, o.Rule, o.Pos, o.Detail)
		if o.Path != "" {
			fmt.Printf("      path: %s\n", o.Path)
		}
	}
	// samples: a spread of real obligations
	var samples []interface{}
	step := 1
	if total > 12 {
		step = total / 12
	}
	for i := 0; i < total; i += step {
		samples = append(samples, r.Obs[i])
	}
	for _, o := range bad {
		samples = append(samples, o)
	}
	byRule := map[string]int{}
	for _, o := range r.Obs {
		byRule[o.Rule]++
	}
	cov := map[string]interface{}{
		"obligations":         total,
		"discharged":          discharged,
		"evaluations":         total,
		"distinct_nontrivial": len(r.keys),
		"rule": "each obligation is one rule instance (rule/function/construct) decided from the SSA form of /repo's current source; " +
			"distinct = distinct obligation keys; all are non-trivial (each names a concrete construct that was found and judged); " + r.Rule,
		"samples":             samples,
		"explanation":         r.Explanation + globalObligationsNote,
		"checker_cmd":         fmt.Sprintf("/verif/bin/cctpcheck -repo %s -prop %s -tier %s", p.Root, r.Prop, tier),
		"trusted_base":        r.Trusted,
		"exhaustive":          true,
		"obligations_by_rule": byRule,
		"known_findings":      knownHits,
		"module_functions":    len(p.Funcs),
		"load_s":              p.LoadS,
	}
	for k, v := range r.Extra {
		cov[k] = v
	}
	ev := map[string]interface{}{
		"property_id": r.Prop,
		"tier":        tier,
		"seed":        seedFromEnv(),
		"level":       r.Level,
		"coverage":    cov,
		"assumptions": r.Assumptions,
		"wall_s":      wall,
		"violations":  len(bad),
	}
	if only == nil {
		os.MkdirAll(evdir, 0o755)
		bz, _ := json.MarshalIndent(ev, "", " ")
		if err := os.WriteFile(filepath.Join(evdir, r.Prop+".json"), bz, 0o644); err != nil {
			fmt.Println("cannot write evidence:", err)
			return true
		}
	}
	if len(bad) > 0 {
		os.MkdirAll(replaydir, 0o755)
		path := filepath.Join(replaydir, fmt.Sprintf("%s-%s.json", r.Prop, tier))
		rp := map[string]interface{}{"property_id": r.Prop, "repo": p.Root, "obligations": bad,
			"how": "cctpcheck -repo <tree> -prop " + r.Prop + " -replay <this file> re-evaluates exactly these obligation keys"}
		bz, _ := json.MarshalIndent(rp, "", " ")
		os.WriteFile(path, bz, 0o644)
		fmt.Printf("VIOLATION property=%s replay=%s\n", r.Prop, path)
		return true
	}
	return false
}

func seedFromEnv() int {
	if s := os.Getenv("VERIF_SEED"); s != "" {
		if i, err := strconv.Atoi(s); err == nil {
			return i
		}
	}
	return 0
}

// failClosed writes evidence and a violation when the tree cannot even be loaded.
func failClosed(spec, tier, evdir, replaydir string, err error, start time.Time) {
	for _, id := range propIDs(spec) {
		level := "other"
		if def := registry[id]; def != nil {
			level = def.Level
		}
		r := newReport(id, level)
		r.Explanation = "the tree could not be loaded; nothing was decided"
		r.fail("loader", "load", "", err.Error())
		p := &Prog{Root: "?"}
		writeEvidence(p, r, tier, evdir, replaydir, nil, nil, time.Since(start).Seconds(), false)
	}
}

// globalObligationsNote is appended to every property's explanation: the obligations that
// commonObligations asks on every run, because each rule table's terms and paths mean what
// they say only if these hold.
const globalObligationsNote = " Global obligations decided on this run for this and every property (rules mutation, resolution, wiring, boundary, accessor, loader): every memory write of module code targets the writer's own fresh locals or is one of the reference tree's tabled writes (no copy/append/store into parameters, parsed fields, call results or globals; no external function or interface method handed such memory unless tabled read-only); every call resolves statically, to a tabled dependency-interface method, or to a function value bound at the call site (no recursion among new helpers, no defer but iterator.Close, no goroutine); the seven wiring functions make exactly the reference calls with the reference values and AppModule has exactly the reference methods; no capability, function value or module-typed interface value with an effectful reachable method leaves the module except to the tabled takers; the files exempt as protoc output are the 16 reference names with their header and no call into hand-written code; every keeper setter/deleter performs its write on every path."
