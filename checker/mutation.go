package main

import (
	"fmt"
	"go/token"
	"go/types"
	"sort"
	"strings"

	"golang.org/x/tools/go/ssa"
)

// mutation.go: the term language names values by where they came from (a parameter, a
// field of a parsed message, the result of a call, a local buffer built by recognised
// writers). That is only sound if the memory behind such a value is not changed after the
// value was named. This inventory lists every instruction of module code that writes memory
// and requires each to be either a write the terms model (into a local variable / local
// buffer of the same function, into a captured variable of a closure) or one of the
// reference tree's known writes (frozen table below). Everything else — a store through a
// pointer parameter or a call result, a copy into a parameter's bytes, a mutating method
// of a dependency on a value that is not fresh, a new external callee handed a pointer or
// slice — fails every property: it could change what a tabled term means.

type memWrite struct {
	fn   *ssa.Function
	in   ssa.Instruction
	root string // local | captured | global | param:<i> | derived:<what>
	what string // printed description of the written location / callee
}

// memRoot classifies the object a pointer/slice value points into.
func memRoot(v ssa.Value, fn *ssa.Function, depth int) string {
	return memRootSeen(v, fn, depth, map[ssa.Value]bool{})
}

func memRootSeen(v ssa.Value, fn *ssa.Function, depth int, seen map[ssa.Value]bool) string {
	if depth > 40 {
		return "derived:deep"
	}
	_, isPhi := v.(*ssa.Phi)
	_, isLoad := v.(*ssa.UnOp)
	if isPhi || isLoad {
		if seen[v] {
			return "" // a cycle through an accumulating variable: neutral
		}
		seen[v] = true
	}
	memRoot := func(v ssa.Value, fn *ssa.Function, depth int) string { return memRootSeen(v, fn, depth, seen) }
	switch o := v.(type) {
	case *ssa.Alloc:
		if o.Parent() == fn {
			return "local"
		}
		return "derived:alloc of another function"
	case *ssa.MakeSlice, *ssa.MakeMap:
		return "local"
	case *ssa.FreeVar:
		return "captured"
	case *ssa.Global:
		return "global:" + o.Name()
	case *ssa.Parameter:
		for i, p := range fn.Params {
			if p == o {
				return fmt.Sprintf("param:%d", i)
			}
		}
		return "param:?"
	case *ssa.FieldAddr:
		return memRoot(o.X, fn, depth+1)
	case *ssa.IndexAddr:
		return memRoot(o.X, fn, depth+1)
	case *ssa.Slice:
		return memRoot(o.X, fn, depth+1)
	case *ssa.ChangeType:
		return memRoot(o.X, fn, depth+1)
	case *ssa.Convert:
		if b, ok := o.X.Type().Underlying().(*types.Basic); ok && b.Info()&types.IsString != 0 {
			return "local" // []byte(s): a fresh copy
		}
		return memRoot(o.X, fn, depth+1)
	case *ssa.MakeInterface:
		return memRoot(o.X, fn, depth+1)
	case *ssa.UnOp:
		if g, ok := o.X.(*ssa.Global); ok && o.Op == token.MUL {
			return "loaded:global:" + g.Name()
		}
		if o.Op == token.MUL {
			// a pointer or slice read from memory: what it points to is not this function's
			// unless it was read from a local that holds a local's address
			if r := memRoot(o.X, fn, depth+1); r == "local" || r == "captured" {
				if fv, ok := o.X.(*ssa.FreeVar); ok {
					// a captured variable: what the enclosing function (and its closures) store into it
					if cell := freeVarCell(fn, fv); cell != nil {
						all, n := true, 0
						forEachCellStore(cell, func(val ssa.Value, sfn *ssa.Function) {
							n++
							if r := memRootSeen(val, sfn, depth+1, seen); r != "local" && r != "" {
								all = false
							}
						})
						if n > 0 && all {
							return "captured"
						}
					}
				}
				if a, ok := rootAllocOf(o.X); ok {
					// what was stored into that local?
					if refs := a.Referrers(); refs != nil {
						all, n := true, 0
						for _, ref := range *refs {
							if st, ok := ref.(*ssa.Store); ok && st.Addr == ssa.Value(a) {
								n++
								if r := memRoot(st.Val, fn, depth+1); r != "local" && r != "" {
									all = false
								}
							}
						}
						if n > 0 && all {
							return "local"
						}
					}
				}
				return "derived:loaded from a local"
			}
			return "derived:loaded pointer"
		}
	case *ssa.Phi:
		res := ""
		for _, e := range o.Edges {
			if c, ok := e.(*ssa.Const); ok && c.Value == nil {
				continue
			}
			r := memRoot(e, fn, depth+1)
			if r == "" {
				continue
			}
			if res == "" {
				res = r
			} else if res != r {
				return "derived:phi"
			}
		}
		if res != "" {
			return res
		}
		return "local" // only nil and itself
	case *ssa.Call:
		if bi, ok := o.Call.Value.(*ssa.Builtin); ok && bi.Name() == "append" {
			// the result of append may share the first argument's backing array
			return memRoot(o.Call.Args[0], fn, depth+1)
		}
		// a module function that returns a view of one of its parameters (`func (r fieldRange)
		// in(bz []byte) []byte { return bz[r.start:r.end] }`): the result points into that argument
		if callee := o.Call.StaticCallee(); callee != nil && !o.Call.IsInvoke() && callee.Blocks != nil && curProg.inModuleCode(callee) && depth < 30 {
			idx := -2
			for _, ret := range allReturns(callee) {
				if len(ret.Results) != 1 {
					idx = -1
					break
				}
				rr := memRootSeen(ret.Results[0], callee, depth+10, map[ssa.Value]bool{})
				i := -1
				if strings.HasPrefix(rr, "param:") {
					fmt.Sscan(strings.TrimPrefix(rr, "param:"), &i)
				}
				if i < 0 || (idx >= 0 && idx != i) {
					idx = -1
					break
				}
				idx = i
			}
			if idx >= 0 && idx < len(o.Call.Args) {
				return memRoot(o.Call.Args[idx], fn, depth+1)
			}
		}
		return "derived:result of " + callNameOf(curProg.tx(fn), o)
	case *ssa.Extract:
		return "derived:result"
	case *ssa.Const:
		return "local" // nil
	}
	return fmt.Sprintf("derived:%T", v)
}

func rootAllocOf(v ssa.Value) (*ssa.Alloc, bool) {
	a, ok := v.(*ssa.Alloc)
	return a, ok
}

// bigIntReaders: methods of *big.Int that do not write their receiver.
var bigIntReaders = map[string]bool{"Bytes": true, "FillBytes": true, "Cmp": true, "CmpAbs": true, "Sign": true, "BitLen": true, "Bit": true, "Bits": true,
	"String": true, "Text": true, "Uint64": true, "Int64": true, "IsUint64": true, "IsInt64": true, "Append": true, "Format": true, "ProbablyPrime": true,
	"MarshalJSON": true, "MarshalText": true, "GobEncode": true, "TrailingZeroBits": true, "Float64": true}

// argReadOnlyExternals: external callees of the reference tree that are handed a pointer,
// slice or map and only read it (or, for the tabled writers, write a destination that the
// rule below judges separately). Frozen from the reference tree; a callee that is not
// listed and receives such an argument rooted outside the caller's fresh locals fails.
var argReadOnlyExternals = map[string]bool{
	"prefix.NewStore": true, "(prefix.Store).Set": true, "(prefix.Store).Get": true, "(prefix.Store).Has": true, "(prefix.Store).Delete": true, "(prefix.Store).Iterator": true,
	"(sdk.AccAddress).String": true, "(sdk.Context).EventManager": true, "bytes.Equal": true, "bytes.Compare": true, "query.Paginate": true,
	"(encoding/binary.bigEndian).Uint32": true, "(encoding/binary.bigEndian).Uint64": true, "sdkmath.NewIntFromBigInt": true, "(sdkmath.Int).BigInt": true,
	"(sdkmath.Int).GT": true, "(sdkmath.Int).IsPositive": true, "(sdkmath.Int).IsNil": true, "ethcrypto.PubkeyToAddress": true, "ethcrypto.Ecrecover": true,
	"encoding/hex.EncodeToString": true, "(*sdk.Config).GetBech32AccountAddrPrefix": true, "sdk.NewCoin": true, "sdk.Bech32ifyAddressBytes": true,
	"bech32.ConvertAndEncode": true, "types/msgservice.RegisterMsgServiceDesc": true, "(*codec.LegacyAmino).RegisterConcrete": true,
	"grpc-gateway/runtime.MustPattern": true,
	// further pure readers a refactoring is likely to reach for
	"bytes.HasPrefix": true, "bytes.HasSuffix": true, "bytes.TrimLeft": true, "bytes.Contains": true, "ethcrypto.Keccak256": true, "ethcommon.BytesToAddress": true,
	"sdk.AccAddressFromBech32": true, "sdk.ValidateDenom": true, "strings.EqualFold": true, "strings.ToLower": true, "ethcommon.FromHex": true,
	"(sdkmath.Int).LT": true, "(sdkmath.Int).GTE": true, "(sdkmath.Int).LTE": true, "(sdkmath.Int).Equal": true, "(sdkmath.Int).IsZero": true, "(sdkmath.Int).IsNegative": true,
	"(sdkmath.Int).String": true, "sdk.NewCoins": true, "slices.Contains": true, "slices.ContainsFunc": true, "slices.IndexFunc": true,
	"(encoding/binary.bigEndian).Uint16": true, "(encoding/binary.bigEndian).AppendUint32": true, "(encoding/binary.bigEndian).AppendUint64": true, "(encoding/binary.bigEndian).AppendUint16": true,
	"sdk.UnwrapSDKContext": true, "sdk.WrapSDKContext": true, "runtime.KVStoreAdapter": true,
}

// knownMemWrites: the reference tree's writes into memory that is not the writing function's
// own fresh local, by (function, root). Each has its own rule elsewhere or is initialisation.
var knownMemWrites = map[string]string{
	"(*types.Message).Parse|param:0":              "the decoder assigns the fields of its receiver (C16 judges what)",
	"(*types.BurnMessage).Parse|param:0":          "the decoder assigns the fields of its receiver (C16 judges what)",
	"keeper.VerifyAttestationSignatures|param:1":  "legacy recovery id normalisation sig[64] -= 27, the only write into the attestation (C01 rule 5 judges it)",
	"cctp.ExportGenesis|derived:result of types.DefaultGenesis": "fills the fresh object DefaultGenesis returns (C17 judges what)",
	"types.init|loaded:global:PaddedModuleAddress":              "package initialisation of the padded module address (C04/C06 pin its value by T-eq on this init)",
	"types.init|external:loaded:global:amino":                   "amino registration / sealing at package initialisation",
	"types.init|codec.NewProtoCodec receives codec/types.NewInterfaceRegistry() as argument 0": "the module codec's initialiser",
	"types.init|(*codec.LegacyAmino).Seal receives types.amino as argument 0": "amino registration at package initialisation",
	"cctp.init|core/appmodule.Register receives core/appmodule.Provide(func:cctp.ProvideModule) as argument 1": "depinject registration at package initialisation",
}

// mutationDiscipline records one obligation per write that is not into the writer's own
// fresh locals; see the file comment.
func mutationDiscipline(p *Prog, r *Report) {
	n, bad := 0, 0
	seen := map[string]int{}
	initStores := map[*ssa.Global]int{}
	for _, w := range p.memWrites() {
		if w.root == "local" || w.root == "captured" {
			continue
		}
		top := w.fn
		for top.Parent() != nil {
			top = top.Parent()
		}
		if top.Pkg != nil && top.Pkg.Pkg.Path() == modulePkgs[3] {
			continue // CLI: client-side code
		}
		isInit := top.Name() == "init" || strings.HasPrefix(top.Name(), "init#")
		if top.Synthetic != "" && isInit {
			// the package initialiser: one direct store per variable (its declared initial value)
			if st, ok := w.in.(*ssa.Store); ok {
				if g, ok := st.Addr.(*ssa.Global); ok {
					initStores[g]++
					if initStores[g] == 1 {
						continue
					}
				} else if w.fn == top && strings.HasPrefix(w.root, "global:") {
					continue // a field / element of a variable's composite initialiser
				}
			}
		}
		n++
		if _, ok := knownMemWrites[funcName(top)+"|"+w.root]; ok && !strings.HasPrefix(w.root, "external:") {
			continue
		}
		topName := funcName(top)
		if i := strings.Index(topName, "#"); i >= 0 && isInit {
			topName = topName[:i]
		}
		if _, ok := knownMemWrites[topName+"|"+w.what]; ok {
			continue
		}
		if _, ok := knownMemWrites[topName+"|"+w.root]; ok && isInit {
			continue
		}
		bad++
		key := fmt.Sprintf("mutation/%s/%s", funcName(w.fn), w.what)
		if len(key) > 180 {
			key = key[:180] + "…"
		}
		seen[key]++
		if seen[key] > 1 {
			key += fmt.Sprintf("#%d", seen[key])
		}
		why := "writes memory that is not the function's own fresh local (" + w.root + "): the values named by the rule tables' terms may no longer be what the terms say"
		if strings.HasPrefix(w.root, "external:") {
			why = "an external function that is not known to only read its arguments is handed memory rooted at " + strings.TrimPrefix(w.root, "external:") + ": it may change a value the rule tables name"
		}
		r.fail("mutation", key, p.instrPos(w.in), funcName(w.fn)+": "+w.what+" — "+why)
	}
	// positive control: the inventory sees the fixture's three writes
	if p.ControlSSA != nil {
		got := map[string]bool{}
		for _, w := range p.memWritesOf(p.ControlFuncs) {
			if w.root != "local" && w.root != "captured" {
				got[w.fn.Name()] = true
			}
		}
		r.check(got["Overwrite"] && got["Clobber"] && got["Poke"], "positive-control", "positive-control/mutation", "", "the write inventory reports the fixture's copy into a parameter, append onto a shortened view and store through a pointer parameter",
			fmt.Sprintf("the write inventory misses a fixture write (seen: %v): it would miss the same in module code", got))
	}
	if bad == 0 {
		r.ok("mutation", "mutation/all", "", fmt.Sprintf("%d writes outside fresh locals, all among the reference tree's %d known (function, target) pairs; no unknown external is handed tracked memory", n, len(knownMemWrites)))
	}
}

func (p *Prog) memWrites() []memWrite { return p.memWritesOf(p.Funcs) }

func (p *Prog) memWritesOf(fns []*ssa.Function) []memWrite {
	var out []memWrite
	for _, fn := range fns {
		x := p.tx(fn)
		for _, b := range fn.Blocks {
			for _, in := range b.Instrs {
				switch in := in.(type) {
				case *ssa.Store:
					root := memRoot(in.Addr, fn, 0)
					if _, isParam := in.Addr.(*ssa.Parameter); isParam {
						root += ":whole" // *p = v: every field at once (never one of the tabled field-wise writers)
					}
					out = append(out, memWrite{fn, in, root, "store to " + x.Of(in.Addr, in).String()})
				case *ssa.MapUpdate:
					root := memRoot(in.Map, fn, 0)
					if strings.HasPrefix(root, "param:") && p.freshMapAtEveryCaller(in.Map, fn) {
						root = "local" // a helper that fills the caller's own fresh map (dup-detection follows it)
					}
					out = append(out, memWrite{fn, in, root, "map update"})
				case *ssa.Call, *ssa.Defer, *ssa.Go:
					out = append(out, p.callWrites(x, fn, in.(ssa.CallInstruction))...)
				}
			}
		}
	}
	return out
}

// appendBaseOK: may `append(v, …)` write memory that some other value can see? It cannot when v
// is nil, a fresh copy, this function's own accumulator (all of whose definitions are such),
// or a full view of one of these; it can when v is a shortened view x[:k] (the tail of x is
// overwritten in place), or memory whose extent is not this function's to know (a parameter,
// a field of a parsed message — which is a view into the message bytes —, a call result).
func (p *Prog) appendBaseOK(v ssa.Value, fn *ssa.Function, seen map[ssa.Value]bool, depth int) (bool, string) {
	if seen[v] {
		return true, ""
	}
	seen[v] = true
	if depth > 30 {
		return false, "too deep"
	}
	switch o := v.(type) {
	case *ssa.Const:
		return true, ""
	case *ssa.MakeSlice:
		return true, ""
	case *ssa.Convert:
		if b, ok := o.X.Type().Underlying().(*types.Basic); ok && b.Info()&types.IsString != 0 {
			return true, ""
		}
		return p.appendBaseOK(o.X, fn, seen, depth+1)
	case *ssa.ChangeType:
		return p.appendBaseOK(o.X, fn, seen, depth+1)
	case *ssa.Slice:
		if o.Max != nil && o.High != nil {
			same := o.Max == o.High
			if a, ok := o.Max.(*ssa.Const); ok {
				if b, ok := o.High.(*ssa.Const); ok && a.Value != nil && b.Value != nil && a.Int64() == b.Int64() {
					same = true
				}
			}
			if same {
				return true, "" // x[a:b:b]: no spare capacity, append copies
			}
		}
		if a, ok := o.X.(*ssa.Alloc); ok && a.Parent() == fn && o.Max == nil {
			if refs := a.Referrers(); refs != nil {
				only := true
				for _, r := range *refs {
					if r != ssa.Instruction(o) {
						if _, dbg := r.(*ssa.DebugRef); !dbg {
							only = false
						}
					}
				}
				if only {
					return true, "" // make([]T, n, c) with constant sizes: the array has no other view
				}
			}
		}
		if o.High == nil {
			if a, ok := o.X.(*ssa.Alloc); ok && a.Parent() == fn {
				return true, "" // a composite literal / whole local array
			}
			return p.appendBaseOK(o.X, fn, seen, depth+1)
		}
		if c, ok := o.High.(*ssa.Const); ok && o.Low == nil {
			if pt, ok := o.X.Type().Underlying().(*types.Pointer); ok {
				if arr, ok := pt.Elem().Underlying().(*types.Array); ok && c.Int64() == arr.Len() {
					if a, ok := o.X.(*ssa.Alloc); ok && a.Parent() == fn {
						return true, "" // make([]T, N) with constant N: the whole fresh array
					}
				}
			}
		}
		return false, "a shortened view x[:k], which keeps the capacity of x: append overwrites the tail of x in place"
	case *ssa.Phi:
		for _, e := range o.Edges {
			if ok, why := p.appendBaseOK(e, fn, seen, depth+1); !ok {
				return false, why
			}
		}
		return true, ""
	case *ssa.Call:
		if bi, ok := o.Call.Value.(*ssa.Builtin); ok && bi.Name() == "append" {
			return p.appendBaseOK(o.Call.Args[0], fn, seen, depth+1)
		}
		if callee := o.Call.StaticCallee(); callee != nil && !o.Call.IsInvoke() {
			if strings.Contains(funcName(callee), "Endian).AppendUint") && len(o.Call.Args) == 3 {
				return p.appendBaseOK(o.Call.Args[1], fn, seen, depth+1) // binary.BigEndian.AppendUintNN(b, v) = append(b, …)
			}
			if p.returnsFresh(callee, map[*ssa.Function]bool{}) {
				return true, ""
			}
			return false, "the result of " + funcName(callee) + " (not known to be a fresh full slice)"
		}
		return false, "the result of a dynamic call"
	case *ssa.UnOp:
		if o.Op != token.MUL {
			return false, "?"
		}
		// a local variable (or a captured one): every value stored into it
		var cell *ssa.Alloc
		switch a := o.X.(type) {
		case *ssa.Alloc:
			cell = a
		case *ssa.FreeVar:
			cell = freeVarCell(fn, a)
		case *ssa.FieldAddr:
			// a field of a local struct under construction (genesis.XList = append(genesis.XList, …))
			if base, ok := a.X.(*ssa.Alloc); ok {
				okAll := true
				why := ""
				forEachFieldStore(base, a.Field, func(val ssa.Value, sfn *ssa.Function) {
					if ok, w := p.appendBaseOK(val, sfn, seen, depth+1); !ok {
						okAll, why = false, w
					}
				})
				if escapesToUnknown(base) {
					return false, "a field of a struct that is shared with other code"
				}
				return okAll, why
			}
			// a field of a fresh object held in a local / captured variable (res := &Response{}; res.List = append(res.List, …))
			if ld, ok := a.X.(*ssa.UnOp); ok && ld.Op == token.MUL {
				var cell *ssa.Alloc
				switch c := ld.X.(type) {
				case *ssa.Alloc:
					cell = c
				case *ssa.FreeVar:
					cell = freeVarCell(fn, c)
				}
				if cell != nil {
					var objs []*ssa.Alloc
					fresh := true
					forEachCellStore(cell, func(val ssa.Value, sfn *ssa.Function) {
						if al, ok := val.(*ssa.Alloc); ok && al.Parent() == cell.Parent() {
							objs = append(objs, al)
						} else if c, ok := val.(*ssa.Const); ok && c.Value == nil {
							// nil (a named result cleared on the error path)
						} else if ld, ok := val.(*ssa.UnOp); ok && ld.X == ssa.Value(cell) {
							// the variable's own value (return res, nil with named results)
						} else {
							fresh = false
						}
					})
					if fresh && len(objs) == 1 {
						okAll, why := true, ""
						// every store into that field, by the function and its closures, through the variable
						var visit func(f *ssa.Function)
						visit = func(f *ssa.Function) {
							for _, b := range f.Blocks {
								for _, in := range b.Instrs {
									if st, ok := in.(*ssa.Store); ok {
										if fa, ok := st.Addr.(*ssa.FieldAddr); ok && fa.Field == a.Field && fa.X.Type() == a.X.Type() {
											if ok, w := p.appendBaseOK(st.Val, f, seen, depth+1); !ok {
												okAll, why = false, w
											}
										}
									}
								}
							}
							for _, an := range f.AnonFuncs {
								visit(an)
							}
						}
						visit(cell.Parent())
						return okAll, why
					}
				}
			}
			return false, "a field read through a pointer (a parsed message's fields are views into the message bytes)"
		}
		if cell == nil {
			return false, "memory read through a pointer"
		}
		okAll, why := true, ""
		forEachCellStore(cell, func(val ssa.Value, sfn *ssa.Function) {
			if ok, w := p.appendBaseOK(val, sfn, seen, depth+1); !ok {
				okAll, why = false, w
			}
		})
		return okAll, why
	case *ssa.Parameter:
		// a helper's accumulator parameter: every call site must hand it an acceptable base
		if fn == nil || !p.inModuleCode(fn) {
			return false, "a parameter (its capacity is the caller's business)"
		}
		idx := -1
		for i, q := range fn.Params {
			if q == o {
				idx = i
			}
		}
		var sites []*ssa.Call
		for _, cs := range p.rawCallersOf(fn) {
			sites = append(sites, cs...)
		}
		if idx < 0 || len(sites) == 0 {
			return false, "a parameter of a function without known call sites"
		}
		for _, c := range sites {
			args := c.Common().Args
			if idx >= len(args) {
				return false, "a parameter bound at a call of different arity"
			}
			if ok, why := p.appendBaseOK(args[idx], c.Parent(), seen, depth+1); !ok {
				return false, "parameter bound to " + why
			}
		}
		return true, ""
	}
	return false, fmt.Sprintf("%T", v)
}

func freeVarCell(fn *ssa.Function, fv *ssa.FreeVar) *ssa.Alloc {
	par := fn.Parent()
	if par == nil {
		return nil
	}
	idx := -1
	for i, f := range fn.FreeVars {
		if f == fv {
			idx = i
		}
	}
	for _, b := range par.Blocks {
		for _, in := range b.Instrs {
			if mc, ok := in.(*ssa.MakeClosure); ok && mc.Fn == ssa.Value(fn) && idx >= 0 && idx < len(mc.Bindings) {
				switch bv := mc.Bindings[idx].(type) {
				case *ssa.Alloc:
					return bv
				case *ssa.FreeVar:
					return freeVarCell(par, bv)
				}
			}
		}
	}
	return nil
}

// forEachCellStore visits every value stored into a local variable, by its own function and by
// the closures that capture it.
func forEachCellStore(cell *ssa.Alloc, f func(ssa.Value, *ssa.Function)) {
	var visit func(addr ssa.Value, fn *ssa.Function, depth int)
	visit = func(addr ssa.Value, fn *ssa.Function, depth int) {
		refs := addr.Referrers()
		if refs == nil || depth > 4 {
			return
		}
		for _, r := range *refs {
			switch r := r.(type) {
			case *ssa.Store:
				if r.Addr == addr {
					f(r.Val, fn)
				}
			case *ssa.MakeClosure:
				cf := r.Fn.(*ssa.Function)
				for i, b := range r.Bindings {
					if b == addr && i < len(cf.FreeVars) {
						visit(cf.FreeVars[i], cf, depth+1)
					}
				}
			}
		}
	}
	visit(cell, cell.Parent(), 0)
}

func forEachFieldStore(base *ssa.Alloc, field int, f func(ssa.Value, *ssa.Function)) {
	for _, r := range *base.Referrers() {
		if fa, ok := r.(*ssa.FieldAddr); ok && fa.Field == field {
			for _, fr := range *fa.Referrers() {
				if st, ok := fr.(*ssa.Store); ok && st.Addr == ssa.Value(fa) {
					f(st.Val, base.Parent())
				}
			}
		}
	}
}

// escapesToUnknown: is the local struct handed to code that could store into its fields?
func escapesToUnknown(base *ssa.Alloc) bool {
	for _, r := range *base.Referrers() {
		switch r := r.(type) {
		case *ssa.FieldAddr, *ssa.Return, *ssa.DebugRef:
		case *ssa.UnOp:
		case *ssa.Store:
			if r.Val == ssa.Value(base) {
				return true
			}
		case *ssa.Call:
			// handing the finished object on (marshal, validate) is judged by the call rule
		default:
			return true
		}
	}
	return false
}

// returnsFresh: every result of the function is freshly allocated memory of which no longer
// view exists (a conversion from a string, make, append onto such, a call of such a function).
var freshExternals = map[string]bool{
	"sdk.Uint64ToBigEndian": true, "(*math/big.Int).Bytes": true, "(*math/big.Int).FillBytes": false, "ethcrypto.Keccak256": true, "encoding/hex.DecodeString": true,
	"ethcommon.FromHex": true, "ethcrypto.FromECDSAPub": true, "bytes.Clone": true, "slices.Clone": true, "bytes.Repeat": true,
	"(encoding/binary.bigEndian).AppendUint16": false, "(encoding/binary.bigEndian).AppendUint32": false, "(encoding/binary.bigEndian).AppendUint64": false,
}

func (p *Prog) returnsFresh(fn *ssa.Function, onStack map[*ssa.Function]bool) bool {
	if fn.Blocks == nil || !(p.inModuleCode(fn) || (fn.Pkg != nil && p.isModulePkgPath(fn.Pkg.Pkg.Path()))) {
		return freshExternals[funcName(fn)]
	}
	if onStack[fn] {
		return true
	}
	onStack[fn] = true
	defer delete(onStack, fn)
	for _, ret := range allReturns(fn) {
		for _, v := range ret.Results {
			if !pointsToMemory(v.Type()) {
				continue
			}
			if _, isSlice := v.Type().Underlying().(*types.Slice); !isSlice {
				continue
			}
			if ok, _ := p.appendBaseOKNoParams(v, fn, onStack); !ok {
				return false
			}
		}
	}
	return true
}

func (p *Prog) appendBaseOKNoParams(v ssa.Value, fn *ssa.Function, onStack map[*ssa.Function]bool) (bool, string) {
	// parameters are not fresh from the callee's point of view
	found := false
	var walk func(v ssa.Value, depth int, seen map[ssa.Value]bool)
	walk = func(v ssa.Value, depth int, seen map[ssa.Value]bool) {
		if seen[v] || depth > 20 {
			return
		}
		seen[v] = true
		switch o := v.(type) {
		case *ssa.Parameter:
			found = true
		case *ssa.Phi:
			for _, e := range o.Edges {
				walk(e, depth+1, seen)
			}
		case *ssa.Slice:
			walk(o.X, depth+1, seen)
		case *ssa.ChangeType:
			walk(o.X, depth+1, seen)
		case *ssa.Call:
			if bi, ok := o.Call.Value.(*ssa.Builtin); ok && bi.Name() == "append" {
				walk(o.Call.Args[0], depth+1, seen)
			}
		}
	}
	walk(v, 0, map[ssa.Value]bool{})
	if found {
		return false, "a parameter"
	}
	return p.appendBaseOK(v, fn, map[ssa.Value]bool{}, 0)
}

// memArgs: the memory a call argument hands to the callee — the argument itself, what an
// interface value wraps, and the elements of a variadic ...any pack.
func memArgs(a ssa.Value) []ssa.Value {
	var out []ssa.Value
	switch o := a.(type) {
	case *ssa.MakeInterface:
		if pointsToMemory(o.X.Type()) {
			out = append(out, o.X)
		}
		return out
	case *ssa.Slice:
		if al, ok := o.X.(*ssa.Alloc); ok {
			if arr, ok := al.Type().(*types.Pointer).Elem().Underlying().(*types.Array); ok {
				if _, isIface := arr.Elem().Underlying().(*types.Interface); isIface {
					for _, r := range *al.Referrers() {
						if ia, ok := r.(*ssa.IndexAddr); ok {
							for _, ir := range *ia.Referrers() {
								if st, ok := ir.(*ssa.Store); ok && st.Addr == ssa.Value(ia) {
									out = append(out, memArgs(st.Val)...)
								}
							}
						}
					}
					return out
				}
			}
		}
	}
	if _, isIface := a.Type().Underlying().(*types.Interface); isIface {
		if c, ok := a.(*ssa.Const); ok && c.Value == nil {
			return nil
		}
		return []ssa.Value{a} // an interface value of unknown dynamic type
	}
	if pointsToMemory(a.Type()) {
		out = append(out, a)
	}
	return out
}

// readOnlyInvokes: interface methods of the reference tree (and a few obvious siblings) that
// only read the memory they are handed — or, for the decoders, write the destination the
// caller names, which must then be the caller's own fresh local (judged at the call).
var readOnlyInvokes = map[string]bool{
	"KVStore.Get": true, "KVStore.Has": true, "KVStore.Set": true, "KVStore.Delete": true, "KVStore.Iterator": true, "KVStore.ReverseIterator": true,
	"KVStoreService.OpenKVStore": true, "Logger.Debug": true, "Logger.Info": true, "Logger.Error": true, "Logger.Warn": true, "Logger.With": true,
	"BinaryCodec.MustMarshal": true, "BinaryCodec.Marshal": true, "Codec.MustMarshalJSON": true, "JSONCodec.MustMarshalJSON": true, "JSONCodec.MarshalJSON": true,
	"BankKeeper.SendCoinsFromAccountToModule": true, "BankKeeper.SendCoinsFromModuleToAccount": true, "BankKeeper.GetBalance": true, "BankKeeper.SpendableCoins": true,
	"FiatTokenfactoryKeeper.Burn": true, "FiatTokenfactoryKeeper.Mint": true, "FiatTokenfactoryKeeper.GetMintingDenom": true,
	"EventManagerI.EmitTypedEvent": true, "EventManagerI.EmitTypedEvents": true, "error.Error": true,
	"Context.Value": true, "Context.Err": true, "Context.Done": true, "Context.Deadline": true,
	"Iterator.Valid": true, "Iterator.Next": true, "Iterator.Key": true, "Iterator.Value": true, "Iterator.Close": true, "Iterator.Error": true,
	"InterfaceRegistry.RegisterImplementations": true, "Configurator.MsgServer": true, "Configurator.QueryServer": true,
}

// decoderInvokes: interface methods that write the object their last argument points to.
var decoderInvokes = map[string]bool{
	"BinaryCodec.MustUnmarshal": true, "BinaryCodec.Unmarshal": true, "Codec.MustUnmarshalJSON": true, "JSONCodec.MustUnmarshalJSON": true, "JSONCodec.UnmarshalJSON": true,
}

func invokeName(c *ssa.CallCommon) string {
	T := c.Value.Type()
	n := "?"
	if nm, ok := T.(*types.Named); ok {
		n = nm.Obj().Name()
	} else if T.String() == "error" {
		n = "error"
	}
	return n + "." + c.Method.Name()
}

// formatters: externals that read everything they are handed (including what interface values
// wrap) and are given no way to keep it.
var formatters = map[string]bool{
	"fmt.Sprintf": true, "fmt.Errorf": true, "fmt.Sprint": true, "fmt.Sprintln": true, "errors.Wrapf": true, "errors.Wrap": true, "errorsmod.Wrapf": true, "errorsmod.Wrap": true,
	"(*errors.Error).Wrapf": true, "(*errors.Error).Wrap": true, "(*errorsmod.Error).Wrapf": true, "(*errorsmod.Error).Wrap": true, "errors.New": true, "errors.Is": true,
	"(*sdkerrors.Error).Wrapf": true, "(*sdkerrors.Error).Wrap": true, "sdkerrors.Wrapf": true, "sdkerrors.Wrap": true,
}

func (p *Prog) callWrites(x *TX, fn *ssa.Function, in ssa.CallInstruction) []memWrite {
	var out []memWrite
	c := in.Common()
	if bi, ok := c.Value.(*ssa.Builtin); ok {
		switch bi.Name() {
		case "copy":
			out = append(out, memWrite{fn, in, memRoot(c.Args[0], fn, 0), "copy into " + x.Of(c.Args[0], in).String()})
		case "append":
			if ok, why := p.appendBaseOK(c.Args[0], fn, map[ssa.Value]bool{}, 0); !ok {
				if x.localBufferView(c.Args[0]) {
					break // a view of this function's own make/array buffer: the buffer's term accounts for it (or is opaque)
				}
				out = append(out, memWrite{fn, in, "derived:append", "append onto " + x.Of(c.Args[0], in).String() + " — " + why})
			}
		case "clear":
			out = append(out, memWrite{fn, in, memRoot(c.Args[0], fn, 0), "clear of " + x.Of(c.Args[0], in).String()})
		}
		return out
	}
	if c.IsInvoke() {
		name := invokeName(c)
		if readOnlyInvokes[name] {
			return nil
		}
		for i, a := range c.Args {
			for _, m := range memArgs(a) {
				root := memRoot(m, fn, 0)
				if root == "local" {
					if decoderInvokes[name] && i == len(c.Args)-1 {
						if _, isAlloc := m.(*ssa.Alloc); isAlloc {
							continue // decodes into the caller's own fresh variable (modelled as decode(...))
						}
					}
					if !decoderInvokes[name] {
						continue
					}
				}
				if decoderInvokes[name] && i != len(c.Args)-1 {
					continue // the bytes to decode are read
				}
				if decoderInvokes[name] && p.freshAtEveryCaller(m, fn, 0) {
					continue // a decode helper's destination parameter: every caller hands it its own fresh variable
				}
				out = append(out, memWrite{fn, in, "external:" + root, fmt.Sprintf("interface method %s receives %s as argument %d", name, x.Of(m, in).String(), i)})
			}
		}
		return out
	}
	callee := c.StaticCallee()
	if callee == nil {
		return nil // a function value: resolved (or reported as unresolved) by the effect analysis; its body's own writes are listed where it is declared
	}
	name := funcName(callee)
	switch {
	case strings.Contains(name, "Endian).AppendUint") && len(c.Args) == 3:
		if ok, why := p.appendBaseOK(c.Args[1], fn, map[ssa.Value]bool{}, 0); !ok && !x.localBufferView(c.Args[1]) {
			out = append(out, memWrite{fn, in, "derived:append", name + " onto " + x.Of(c.Args[1], in).String() + " — " + why})
		}
	case strings.Contains(name, "Endian).PutUint") && len(c.Args) == 3:
		out = append(out, memWrite{fn, in, memRoot(c.Args[1], fn, 0), name + " into " + x.Of(c.Args[1], in).String()})
	case name == "(*math/big.Int).FillBytes" && len(c.Args) == 2:
		out = append(out, memWrite{fn, in, memRoot(c.Args[1], fn, 0), name + " into " + x.Of(c.Args[1], in).String()})
	case strings.HasPrefix(name, "(*math/big.Int).") && !bigIntReaders[callee.Name()]:
		// writes its receiver: only a fresh `new(big.Int)` with this single mutator is a value
		root := memRoot(c.Args[0], fn, 0)
		if a, ok := c.Args[0].(*ssa.Alloc); ok && root == "local" {
			n := 0
			for _, ref := range *a.Referrers() {
				if rc, ok := ref.(ssa.CallInstruction); ok && !rc.Common().IsInvoke() {
					if cc := rc.Common().StaticCallee(); cc != nil && strings.HasPrefix(funcName(cc), "(*math/big.Int).") && !bigIntReaders[cc.Name()] && len(rc.Common().Args) > 0 && rc.Common().Args[0] == ssa.Value(a) {
						n++
					}
				}
			}
			if n > 1 {
				root = "derived:big.Int mutated more than once"
			}
		} else if root == "local" {
			root = "derived:big.Int that is not a fresh allocation"
		}
		out = append(out, memWrite{fn, in, root, name + " on " + x.Of(c.Args[0], in).String()})
	case name == "(sdkmath.Int).BigIntMut":
		out = append(out, memWrite{fn, in, "derived:exposes the Int's internal pointer", name})
	case !p.inModuleCode(callee) && !(callee.Pkg != nil && p.isModulePkgPath(callee.Pkg.Pkg.Path())):
		// an external callee handed memory that is not the caller's fresh local
		if base := strings.SplitN(name, "[", 2)[0]; argReadOnlyExternals[name] || formatters[name] || argReadOnlyExternals[base] {
			return out
		}
		for i, a := range c.Args {
			for _, m := range memArgs(a) {
				root := memRoot(m, fn, 0)
				if root == "local" {
					continue
				}
				out = append(out, memWrite{fn, in, "external:" + root, fmt.Sprintf("%s receives %s as argument %d", name, x.Of(m, in).String(), i)})
			}
		}
	}
	return out
}

// localBufferView: is v a view of a make([]byte, …) / local array of this function (whose
// term is rebuilt from its writers, with append into it making it opaque)?
func (x *TX) localBufferView(v ssa.Value) bool {
	for i := 0; i < 8; i++ {
		switch o := v.(type) {
		case *ssa.Slice:
			v = o.X
		case *ssa.MakeSlice:
			return true
		case *ssa.Alloc:
			_, isArr := o.Type().(*types.Pointer).Elem().Underlying().(*types.Array)
			return isArr && o.Parent() == x.fn
		default:
			return false
		}
	}
	return false
}

func pointsToMemory(T types.Type) bool {
	switch u := T.Underlying().(type) {
	case *types.Pointer, *types.Slice, *types.Map:
		return true
	case *types.Interface:
		return false // judged by the capability rule (C15); values are wrapped by MakeInterface and seen there
	case *types.Struct:
		for i := 0; i < u.NumFields(); i++ {
			if pointsToMemory(u.Field(i).Type()) {
				return true
			}
		}
	}
	return false
}

func dumpMemWrites(p *Prog) {
	ws := p.memWrites()
	sort.Slice(ws, func(i, j int) bool {
		if funcName(ws[i].fn) != funcName(ws[j].fn) {
			return funcName(ws[i].fn) < funcName(ws[j].fn)
		}
		return ws[i].what < ws[j].what
	})
	for _, w := range ws {
		if w.root == "local" || w.root == "captured" {
			continue
		}
		fmt.Printf("%-18s %-55s %s  @%s\n", w.root, funcName(w.fn), w.what, p.instrPos(w.in))
	}
}

// freshAtEveryCaller: v is a parameter of a new helper and every call site passes the address
// of a fresh local variable of the caller (or, transitively, such a parameter).
func (p *Prog) freshAtEveryCaller(v ssa.Value, fn *ssa.Function, depth int) bool {
	if depth > 3 {
		return false
	}
	prm, ok := v.(*ssa.Parameter)
	if !ok || !p.newHelper(fn) {
		return false
	}
	idx := -1
	for i, q := range fn.Params {
		if q == prm {
			idx = i
		}
	}
	n := 0
	for _, cs := range p.rawCallersOf(fn) {
		for _, c := range cs {
			if idx < 0 || idx >= len(c.Call.Args) {
				return false
			}
			n++
			a := c.Call.Args[idx]
			if mi, ok := a.(*ssa.MakeInterface); ok {
				a = mi.X
			}
			if al, ok := a.(*ssa.Alloc); ok && al.Parent() == c.Parent() {
				continue
			}
			if !p.freshAtEveryCaller(a, c.Parent(), depth+1) {
				return false
			}
		}
	}
	return n > 0
}

// freshMapAtEveryCaller: v is a parameter of a new helper and every call site hands it a map
// the caller made itself.
func (p *Prog) freshMapAtEveryCaller(v ssa.Value, fn *ssa.Function) bool {
	for {
		if ct, ok := v.(*ssa.ChangeType); ok {
			v = ct.X
			continue
		}
		break
	}
	prm, ok := v.(*ssa.Parameter)
	if !ok || !p.newHelper(fn) {
		return false
	}
	idx := -1
	for i, q := range fn.Params {
		if q == prm {
			idx = i
		}
	}
	n := 0
	for _, cs := range p.rawCallersOf(fn) {
		for _, c := range cs {
			if idx < 0 || idx >= len(c.Call.Args) {
				return false
			}
			n++
			if memRoot(c.Call.Args[idx], c.Parent(), 0) != "local" {
				return false
			}
		}
	}
	return n > 0
}
