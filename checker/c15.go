package main

import (
	"fmt"
	"sort"
	"strings"

	"golang.org/x/tools/go/ssa"
)

func singleton(region string) string { return fmt.Sprintf("%s []byte(%q)", region, region) }

// writeTable is the oracle for C15 (DESIGN Appendix A): the store entries each
// transaction type may write (W) or delete (D), with the key term that must be
// named, in the handler's own frame (p2 = the request message).
var writeTable = map[string][]string{
	"AcceptOwner":                        {"W raw:owner types.OwnerKey", "D raw:pending-owner types.PendingOwnerKey"},
	"AddRemoteTokenMessenger":            {"W RemoteTokenMessenger/value/ types.RemoteTokenMessengerKey(p2.DomainId)"},
	"DepositForBurn":                     {"W " + singleton("NextAvailableNonce/value/")},
	"DepositForBurnWithCaller":           {"W " + singleton("NextAvailableNonce/value/")},
	"DisableAttester":                    {"D Attester/value/ types.AttesterKey([]byte(p2.Attester))"},
	"EnableAttester":                     {"W Attester/value/ types.AttesterKey([]byte(p2.Attester))"},
	"LinkTokenPair":                      {"W TokenPair/value/ types.TokenPairKey(p2.RemoteDomain,p2.RemoteToken)"},
	"PauseBurningAndMinting":             {"W " + singleton("BurningAndMintingPaused/value/")},
	"PauseSendingAndReceivingMessages":   {"W " + singleton("SendingAndReceivingMessagesPaused/value/")},
	"ReceiveMessage":                     {"W UsedNonce/value/ types.UsedNonceKey(M.Nonce,M.SourceDomain)"},
	"RemoveRemoteTokenMessenger":         {"D RemoteTokenMessenger/value/ types.RemoteTokenMessengerKey(p2.DomainId)"},
	"ReplaceDepositForBurn":              {},
	"ReplaceMessage":                     {},
	"SendMessage":                        {"W " + singleton("NextAvailableNonce/value/")},
	"SendMessageWithCaller":              {"W " + singleton("NextAvailableNonce/value/")},
	"SetMaxBurnAmountPerMessage":         {"W PerMessageBurnLimit/value/ types.PerMessageBurnLimitKey(strings.ToLower(p2.LocalToken))"},
	"UnlinkTokenPair":                    {"D TokenPair/value/ types.TokenPairKey(p2.RemoteDomain,p2.RemoteToken)"},
	"UnpauseBurningAndMinting":           {"W " + singleton("BurningAndMintingPaused/value/")},
	"UnpauseSendingAndReceivingMessages": {"W " + singleton("SendingAndReceivingMessagesPaused/value/")},
	"UpdateAttesterManager":              {"W raw:attester-manager types.AttesterManagerKey"},
	"UpdateMaxMessageBodySize":           {"W " + singleton("MaxMessageBodySize/value/")},
	"UpdateOwner":                        {"W raw:pending-owner types.PendingOwnerKey"},
	"UpdatePauser":                       {"W raw:pauser types.PauserKey"},
	"UpdateSignatureThreshold":           {"W " + singleton("SignatureThreshold/value/")},
	"UpdateTokenController":              {"W raw:token-controller types.TokenControllerKey"},
}

// ledgerTable / eventTable: the ledger requests and typed events each
// transaction type may issue (upper bounds).
var ledgerTable = map[string][]string{
	"DepositForBurn":           {"bank.SendCoinsFromAccountToModule", "fiattokenfactory.Burn", "fiattokenfactory.GetMintingDenom"},
	"DepositForBurnWithCaller": {"bank.SendCoinsFromAccountToModule", "fiattokenfactory.Burn", "fiattokenfactory.GetMintingDenom"},
	"ReceiveMessage":           {"fiattokenfactory.Mint"},
}

var eventTable = map[string][]string{
	"AcceptOwner":                        {"*types.OwnerUpdated"},
	"AddRemoteTokenMessenger":            {"*types.RemoteTokenMessengerAdded"},
	"DepositForBurn":                     {"*types.MessageSent", "*types.DepositForBurn"},
	"DepositForBurnWithCaller":           {"*types.MessageSent", "*types.DepositForBurn"},
	"DisableAttester":                    {"*types.AttesterDisabled"},
	"EnableAttester":                     {"*types.AttesterEnabled"},
	"LinkTokenPair":                      {"*types.TokenPairLinked"},
	"PauseBurningAndMinting":             {"*types.BurningAndMintingPausedEvent"},
	"PauseSendingAndReceivingMessages":   {"*types.SendingAndReceivingPausedEvent"},
	"ReceiveMessage":                     {"*types.MintAndWithdraw", "*types.MessageReceived"},
	"RemoveRemoteTokenMessenger":         {"*types.RemoteTokenMessengerRemoved"},
	"ReplaceDepositForBurn":              {"*types.MessageSent", "*types.DepositForBurn"},
	"ReplaceMessage":                     {"*types.MessageSent"},
	"SendMessage":                        {"*types.MessageSent"},
	"SendMessageWithCaller":              {"*types.MessageSent"},
	"SetMaxBurnAmountPerMessage":         {"*types.SetBurnLimitPerMessage"},
	"UnlinkTokenPair":                    {"*types.TokenPairUnlinked"},
	"UnpauseBurningAndMinting":           {"*types.BurningAndMintingUnpausedEvent"},
	"UnpauseSendingAndReceivingMessages": {"*types.SendingAndReceivingUnpausedEvent"},
	"UpdateAttesterManager":              {"*types.AttesterManagerUpdated"},
	"UpdateMaxMessageBodySize":           {"*types.MaxMessageBodySizeUpdated"},
	"UpdateOwner":                        {"*types.OwnershipTransferStarted"},
	"UpdatePauser":                       {"*types.PauserUpdated"},
	"UpdateSignatureThreshold":           {"*types.SignatureThresholdUpdated"},
	"UpdateTokenController":              {"*types.TokenControllerUpdated"},
}

var queryNames = []string{"Attester", "Attesters", "BurnMessageVersion", "BurningAndMintingPaused", "LocalDomain",
	"LocalMessageVersion", "MaxMessageBodySize", "NextAvailableNonce", "PerMessageBurnLimit", "PerMessageBurnLimits",
	"RemoteTokenMessenger", "RemoteTokenMessengers", "Roles", "SendingAndReceivingMessagesPaused", "SignatureThreshold",
	"TokenPair", "TokenPairs", "UsedNonce", "UsedNonces"}

const abM = "(*types.Message).Parse(§)#0"

// keyNorm applies the collection-key rewrite: a value found under key K(a,b) has
// key fields (a,b) (the setter derives the key from the value's own fields; K-agree
// verifies that), so Field(Get(a,b), keyfield) is a/b.
func keyNorm(s string) string {
	// k.GetTokenPair(ctx,D,T)#0.RemoteToken -> T ; .RemoteDomain -> D
	for {
		i := strings.Index(s, "k.GetTokenPair(ctx,")
		if i < 0 {
			return s
		}
		// find matching paren
		j := i + len("k.GetTokenPair(")
		depth := 1
		k := j
		for k < len(s) && depth > 0 {
			switch s[k] {
			case '(':
				depth++
			case ')':
				depth--
			}
			k++
		}
		inner := s[j : k-1] // ctx,D,T
		rest := s[k:]
		args := splitTop(inner)
		if len(args) != 3 {
			return s
		}
		switch {
		case strings.HasPrefix(rest, "#0.RemoteToken"):
			s = s[:i] + args[2] + rest[len("#0.RemoteToken"):]
		case strings.HasPrefix(rest, "#0.RemoteDomain"):
			s = s[:i] + args[1] + rest[len("#0.RemoteDomain"):]
		default:
			return s
		}
	}
}

// splitTop splits a comma-separated argument list at nesting depth 0.
func splitTop(s string) []string {
	var out []string
	depth := 0
	start := 0
	inStr := false
	for i := 0; i < len(s); i++ {
		ch := s[i]
		if inStr {
			if ch == '\\' {
				i++
			} else if ch == '"' {
				inStr = false
			}
			continue
		}
		switch ch {
		case '"':
			inStr = true
		case '(', '{', '[':
			depth++
		case ')', '}', ']':
			depth--
		case ',':
			if depth == 0 {
				out = append(out, s[start:i])
				start = i + 1
			}
		}
	}
	return append(out, s[start:])
}

func effectRow(e Effect, ab func(string) string) string {
	row := e.Kind + " " + e.Region
	if e.Key != nil {
		row += " " + keyNorm(ab(e.Key.String()))
	}
	return row
}

func contains(list []string, s string) bool {
	for _, x := range list {
		if x == s {
			return true
		}
	}
	return false
}

func init() {
	register("C15", "proof", runC15)
}

func runC15(p *Prog, r *Report, tier string) {
	r.Rule = "F-set over 25 tx handlers, 19 queries and ExportGenesis against the documented write table; key terms; region disjointness; store API confinement"
	r.Explanation = "Decided: for every code path of every transaction handler, query and genesis export, the transitive set of store writes/deletes " +
		"(through all module callees, closures included) is a subset of the documented table, and each written key is the collection's key function applied to the request's own fields; " +
		"the 15 store regions are pairwise prefix-free; store primitives occur only in keeper.Keeper accessor methods; no store value escapes the recognised idioms. " +
		"Not decided: that a failed transaction's writes are discarded (cosmos-sdk message branch), and the behaviour of the store implementation."
	r.Trusted = []string{"go/packages + go/types + go/ssa of x/tools v0.29.0", "effect recognition table (KVStore Get/Has/Set/Delete/Iterator, prefix.NewStore, runtime.KVStoreAdapter, query.Paginate)",
		"bank and fiat-token-factory keepers hold no reference to the cctp store key", "cosmos-sdk discards the state branch of a message that returns an error"}
	r.Assumptions = r.Trusted

	txTable := map[string]bool{}
	for h := range writeTable {
		txTable[h] = true
	}
	hs := inventoryObligations(p, r, txTable, "tx")
	r.floor("tx-handlers", len(hs), 25)
	qTable := map[string]bool{}
	for _, q := range queryNames {
		qTable[q] = true
	}
	qs := inventoryObligations(p, r, qTable, "query")
	r.floor("query-handlers", len(qs), 19)
	wiringObligations(p, r)
	ctxDiscipline(p, r, allTxRoots(p))

	abbr := func(s string) string { return replaceBalanced(s, "(*types.Message).Parse(", ")#0", "M") }

	checkEntry := func(kind, name string, fn *ssa.Function, allowedW, allowedL, allowedE []string) {
		if fn == nil {
			return
		}
		effs := p.closure(fn)
		nW := 0
		seen := map[string]bool{}
		for _, e := range effs {
			switch e.Kind {
			case "W", "D":
				nW++
				row := effectRow(e, abbr)
				if seen[row] {
					continue
				}
				seen[row] = true
				key := fmt.Sprintf("F-set/%s/%s/%s", kind, name, row)
				if contains(allowedW, row) {
					r.ok("F-set", key, p.instrPos(e.In), "documented write, via "+strings.Join(e.Chain, " > "))
				} else if strings.Contains(row, "?") {
					r.undecided("F-set", key, p.instrPos(e.In), "write with undecided key term, via "+strings.Join(e.Chain, " > "))
				} else {
					r.fail("F-set", key, p.instrPos(e.In), fmt.Sprintf("%s %s may perform undocumented store write [%s] via %s; documented: %v", kind, name, row, strings.Join(e.Chain, " > "), allowedW))
				}
			case "LEDGER":
				key := fmt.Sprintf("F-set/%s/%s/LEDGER %s", kind, name, e.Region)
				if seen[key] {
					continue
				}
				seen[key] = true
				r.check(contains(allowedL, e.Region), "F-set", key, p.instrPos(e.In), "documented ledger request",
					fmt.Sprintf("%s %s may issue undocumented ledger request %s via %s", kind, name, e.Region, strings.Join(e.Chain, " > ")))
			case "EVENT":
				key := fmt.Sprintf("F-set/%s/%s/EVENT %s", kind, name, e.Region)
				if seen[key] {
					continue
				}
				seen[key] = true
				r.check(contains(allowedE, e.Region), "F-set", key, p.instrPos(e.In), "documented event",
					fmt.Sprintf("%s %s may emit undocumented event %s via %s", kind, name, e.Region, strings.Join(e.Chain, " > ")))
			case "ESCAPE", "FORBIDDEN", "UNRESOLVED":
				r.fail("F-set", fmt.Sprintf("F-set/%s/%s/%s %s", kind, name, e.Kind, e.Region), p.instrPos(e.In),
					fmt.Sprintf("%s %s: %s (%s) via %s — the effect analysis cannot bound this handler", kind, name, e.Kind, e.Region, strings.Join(e.Chain, " > ")))
			}
		}
		r.ok("F-set", fmt.Sprintf("F-set/%s/%s/row", kind, name), p.pos(fn.Pos()),
			fmt.Sprintf("%d write/delete sites reachable, documented rows: %v", nW, allowedW))
	}
	for _, h := range hs {
		checkEntry("tx", h.Name, h.Fn, writeTable[h.Name], ledgerTable[h.Name], eventTable[h.Name])
	}
	for _, q := range qs {
		checkEntry("query", q.Name, q.Fn, nil, nil, nil)
	}
	checkEntry("genesis", "ExportGenesis", p.Func("cctp.ExportGenesis"), nil, nil, nil)

	// program-wide: no escape / forbidden store access anywhere in module code
	regions := map[string]bool{}
	nPrim := 0
	var outside []string
	for _, fn := range p.Funcs {
		s := p.effects(fn)
		for _, e := range s.direct {
			switch e.Kind {
			case "ESCAPE", "FORBIDDEN":
				r.fail("store-confinement", "confinement/"+funcName(fn)+"/"+e.Region, p.instrPos(e.In),
					"store value used outside the recognised idioms: "+e.Region)
			case "R", "W", "D", "ITER", "PAGE":
				nPrim++
				if !e.Late {
					regions[e.Region] = true
				}
				top := fn
				for top.Parent() != nil {
					top = top.Parent()
				}
				recv := top.Signature.Recv()
				if p.newHelper(top) {
					// a new helper's accesses count for the known functions that call it (below)
				} else if recv == nil || !isNamed(recv.Type(), modPath+"/x/cctp/keeper", "Keeper") {
					outside = append(outside, funcName(fn)+" @"+p.instrPos(e.In))
				}
			}
		}
		// (unresolved dynamic calls: resolutionObligation, asked by every property)
	}
	// regions addressed through a new helper's parameters resolve at the helper's callers
	for _, fn := range p.Funcs {
		for _, e := range p.own(fn) {
			switch e.Kind {
			case "R", "W", "D", "ITER", "PAGE":
				regions[e.Region] = true
				if e.Inner != nil {
					top := fn
					for top.Parent() != nil {
						top = top.Parent()
					}
					recv := top.Signature.Recv()
					if recv == nil || !isNamed(recv.Type(), modPath+"/x/cctp/keeper", "Keeper") {
						outside = append(outside, funcName(fn)+" (through a new helper) @"+p.instrPos(e.Inner))
					}
				}
			}
		}
	}
	r.check(len(outside) == 0, "store-confinement", "confinement/primitives-only-in-keeper-accessors", "",
		fmt.Sprintf("%d store primitives, all inside methods of keeper.Keeper", nPrim),
		fmt.Sprintf("store primitives outside keeper.Keeper accessor methods: %v", outside))
	r.floor("store-primitives", nPrim, 30)

	// K-disjoint
	var regs []string
	for g := range regions {
		regs = append(regs, g)
	}
	sort.Strings(regs)
	r.floor("store-regions", len(regs), 15)
	r.Extra["regions"] = regs
	for i, a := range regs {
		for j, b := range regs {
			if i >= j {
				continue
			}
			ka, kb := strings.TrimPrefix(a, "raw:"), strings.TrimPrefix(b, "raw:")
			bad := strings.HasPrefix(ka, kb) || strings.HasPrefix(kb, ka)
			r.check(!bad, "K-disjoint", fmt.Sprintf("K-disjoint/%s|%s", a, b), "", "neither key space is a prefix of the other",
				fmt.Sprintf("store regions %q and %q overlap: a write to one can alias an entry of the other", a, b))
		}
	}
	checkExternalCalls(p, r, hs, qs)
	if tier == "thorough" {
		vtaCrossCheck(p, r)
	}
}

// externalPure is the frozen classification of calls leaving the module from
// code reachable from the entry points (DESIGN E2). Packages are pure
// (no state beyond their arguments) unless listed function by function.
var externalPurePkgs = map[string]bool{
	"bytes": true, "strings": true, "encoding/binary": true, "encoding/hex": true, "math/big": true, "fmt": true, "errors": true,
	"cosmossdk.io/errors": true, "cosmossdk.io/math": true,
	"github.com/ethereum/go-ethereum/common": true, "github.com/ethereum/go-ethereum/crypto": true,
	"github.com/cosmos/cosmos-sdk/types/bech32": true,
	"google.golang.org/grpc/status":             true, "google.golang.org/grpc/codes": true,
	"cosmossdk.io/store/prefix":                true, // NewStore: constructor, effects recognised at the primitives
	"github.com/cosmos/cosmos-sdk/runtime":     true, // KVStoreAdapter
	"github.com/cosmos/cosmos-sdk/types/query": true, // Paginate: recognised as PAGE effect
	"github.com/cosmos/cosmos-sdk/codec":       true, // BinaryCodec (un)marshal
	"github.com/cosmos/cosmos-db":              true, // Iterator Valid/Next/Value/Close on a store iterator
	"cosmossdk.io/core/store":                  true, // KVStoreService.OpenKVStore
	"cosmossdk.io/log":                         true,
	"crypto/ecdsa":                             true,
	"":                                         true, // error.Error on the universe type
}

var externalSDKFuncs = map[string]string{
	"sdk.UnwrapSDKContext":                     "pure",
	"sdk.AccAddressFromBech32":                 "pure (reads the sealed bech32 config)",
	"(sdk.Context).EventManager":               "accessor",
	"(sdk.AccAddress).String":                  "pure (reads the sealed bech32 config; internal LRU cache is value-transparent)",
	"sdk.GetConfig":                            "process-global read, sealed at start-up, identical on all validators (allow-listed once)",
	"(*sdk.Config).GetBech32AccountAddrPrefix": "see sdk.GetConfig",
	"sdk.ValidateDenom":                        "pure",
	"sdk.NewCoin":                              "pure (panics on invalid input: C20)",
	"sdk.NewCoins":                             "pure (panics on invalid input: C20)",
	"sdk.Bech32ifyAddressBytes":                "pure",
	"sdk.MustAccAddressFromBech32":             "pure (panics: C20)",
}

func checkExternalCalls(p *Prog, r *Report, hs, qs []Handler) {
	var entries []*ssa.Function
	for _, h := range hs {
		entries = append(entries, h.Fn)
	}
	for _, q := range qs {
		entries = append(entries, q.Fn)
	}
	for _, n := range []string{"cctp.InitGenesis", "cctp.ExportGenesis", "types.GenesisState.Validate"} {
		if fn := p.Func(n); fn != nil {
			entries = append(entries, fn)
		}
	}
	seen := map[string]bool{}
	n := 0
	for _, fn := range entries {
		if fn == nil {
			continue
		}
		for _, e := range p.closure(fn) {
			if e.Kind != "EXTERNAL" {
				continue
			}
			name := e.Val.S
			id := e.Region + " " + name
			if seen[id] {
				continue
			}
			seen[id] = true
			n++
			key := "external/" + name
			if e.Key == nil {
				// no context, store, keeper or event manager is handed to the callee: it cannot touch chain state
				r.ok("external-classification", key, p.instrPos(e.In), "receives no capability (context/store/keeper/event manager): cannot read or write chain state")
				continue
			}
			if e.Region == "github.com/cosmos/cosmos-sdk/types" {
				if why, ok := externalSDKFuncs[strings.TrimPrefix(name, "func:")]; ok {
					r.ok("external-classification", key, p.instrPos(e.In), why)
				} else if strings.HasPrefix(name, "invoke ") {
					r.ok("external-classification", key, p.instrPos(e.In), "interface method on an sdk value (event manager / account)")
				} else {
					r.fail("external-classification", key, p.instrPos(e.In), "unclassified call into cosmos-sdk/types: "+name+" — its effects are not in the frozen table")
				}
				continue
			}
			if externalPurePkgs[e.Region] {
				r.ok("external-classification", key, p.instrPos(e.In), "package "+e.Region+" is classified pure/recognised")
			} else {
				r.fail("external-classification", key, p.instrPos(e.In), fmt.Sprintf("unclassified external call %s (package %s) reachable from an entry point", name, e.Region))
			}
		}
	}
	r.floor("classified-external-callees", n, 30)
}
