package main

import (
	"go/constant"
	"go/token"

	"golang.org/x/tools/go/ssa"
)

// FuncInfo caches per-function CFG facts.
type FuncInfo struct {
	fn    *ssa.Function
	reach [][]bool // reach[a][b]: b reachable from a by >= 1 edge
	idx   map[ssa.Instruction]int
}

func (p *Prog) info(fn *ssa.Function) *FuncInfo {
	if fi, ok := p.funcInfo[fn]; ok {
		return fi
	}
	n := len(fn.Blocks)
	fi := &FuncInfo{fn: fn, reach: make([][]bool, n), idx: map[ssa.Instruction]int{}}
	for _, b := range fn.Blocks {
		for i, in := range b.Instrs {
			fi.idx[in] = i
		}
	}
	for i := range fn.Blocks {
		r := make([]bool, n)
		var stack []*ssa.BasicBlock
		stack = append(stack, fn.Blocks[i].Succs...)
		for len(stack) > 0 {
			b := stack[len(stack)-1]
			stack = stack[:len(stack)-1]
			if r[b.Index] {
				continue
			}
			r[b.Index] = true
			stack = append(stack, b.Succs...)
		}
		fi.reach[i] = r
	}
	p.funcInfo[fn] = fi
	computeThreading(fn)
	return fi
}

// threadMap: jump threading for branches on a boolean phi of constants
// (`found := false; for … { if c { found = true; break } }; if !found {…}`).
// For such a block B (only phis + the If), an edge P->B continues to exactly one
// successor of B, determined by the constant P contributes to the phi.
// threadMap[B][P] = successor slot taken when entering B from P.
var threadMap = map[*ssa.BasicBlock]map[*ssa.BasicBlock]int{}

func computeThreading(fn *ssa.Function) {
	for _, b := range fn.Blocks {
		if len(b.Instrs) == 0 {
			continue
		}
		iff, ok := b.Instrs[len(b.Instrs)-1].(*ssa.If)
		if !ok {
			continue
		}
		onlyPhis := true
		for _, in := range b.Instrs[:len(b.Instrs)-1] {
			if _, ok := in.(*ssa.Phi); !ok {
				onlyPhis = false
			}
		}
		if !onlyPhis {
			continue
		}
		cond := iff.Cond
		neg := false
		if u, ok := cond.(*ssa.UnOp); ok && u.Op == token.NOT {
			// not possible inside a phi-only block, kept for clarity
			cond, neg = u.X, true
		}
		phi, ok := cond.(*ssa.Phi)
		if !ok || phi.Block() != b {
			continue
		}
		// the constant edges are threaded; at most one non-constant edge may remain
		// (`c := a && b; if c` — from that predecessor the branch is `if b`)
		m := map[*ssa.BasicBlock]int{}
		nonConst := 0
		for i, e := range phi.Edges {
			c, ok := e.(*ssa.Const)
			if !ok || c.Value == nil || c.Value.Kind() != constant.Bool {
				nonConst++
				continue
			}
			v := constant.BoolVal(c.Value)
			if neg {
				v = !v
			}
			slot := 1
			if v {
				slot = 0
			}
			m[b.Preds[i]] = slot
		}
		if nonConst <= 1 && len(m) > 0 {
			threadMap[b] = m
			if nonConst == 1 {
				namedBranch[b] = true
			}
		}
	}
}

// namedCondition: the If of a block that holds only phis and branches on a boolean phi
// whose edges are constants except one (`c := a && b; …; if c`, `c := a || b`): returns the
// value V brought by the non-constant predecessor, that predecessor, whether the branch
// condition negates the phi, and the successor slot the constant entries take.
func namedCondition(iff *ssa.If) (v ssa.Value, pred *ssa.BasicBlock, neg bool, constSlot int, ok bool) {
	b := iff.Block()
	for _, in := range b.Instrs[:len(b.Instrs)-1] {
		if _, isPhi := in.(*ssa.Phi); !isPhi {
			return nil, nil, false, 0, false
		}
	}
	cond := iff.Cond
	for {
		u, isU := cond.(*ssa.UnOp)
		if !isU || u.Op != token.NOT {
			break
		}
		cond, neg = u.X, !neg
	}
	phi, isPhi := cond.(*ssa.Phi)
	if !isPhi || phi.Block() != b {
		return nil, nil, false, 0, false
	}
	constSlot = -1
	for i, e := range phi.Edges {
		c, isC := e.(*ssa.Const)
		if isC && c.Value != nil && c.Value.Kind() == constant.Bool {
			val := constant.BoolVal(c.Value)
			if neg {
				val = !val
			}
			slot := 1
			if val {
				slot = 0
			}
			if constSlot >= 0 && constSlot != slot {
				return nil, nil, false, 0, false
			}
			constSlot = slot
			continue
		}
		if v != nil {
			return nil, nil, false, 0, false
		}
		v, pred = e, b.Preds[i]
	}
	if v == nil || constSlot < 0 {
		return nil, nil, false, 0, false
	}
	return v, pred, neg, constSlot, true
}

// canReach: may control flow from just after a to b (a executes before b on some path)?
func (fi *FuncInfo) canReach(a, b ssa.Instruction) bool {
	if a == nil || b == nil {
		return true
	}
	ba, bb := a.Block(), b.Block()
	if ba == nil || bb == nil {
		return true
	}
	if ba == bb {
		if fi.idx[a] < fi.idx[b] {
			return true
		}
		return fi.reach[ba.Index][bb.Index]
	}
	return fi.reach[ba.Index][bb.Index]
}

// dominates: a executes before b on every path reaching b.
func (fi *FuncInfo) dominates(a, b ssa.Instruction) bool {
	ba, bb := a.Block(), b.Block()
	if ba == bb {
		return fi.idx[a] < fi.idx[b]
	}
	return ba.Dominates(bb)
}

// reachAvoiding: can control flow from the function entry reach instruction `to`
// without executing any of the `avoid` instructions?
func (fi *FuncInfo) entryReachesAvoiding(to ssa.Instruction, avoid []ssa.Instruction) bool {
	return fi.blockReachesAvoiding(fi.fn.Blocks[0], to, avoid)
}

// blockReachesAvoiding: can control flow from the start of block `from` reach
// instruction `to` without executing any of the `avoid` instructions?
func (fi *FuncInfo) blockReachesAvoiding(from *ssa.BasicBlock, to ssa.Instruction, avoid []ssa.Instruction) bool {
	if to.Parent() != fi.fn || from.Parent() != fi.fn {
		return true // not a question about this function's graph: fail closed
	}
	avoidIn := map[*ssa.BasicBlock]int{} // block -> smallest index of an avoided instr
	for _, a := range avoid {
		b := a.Block()
		if cur, ok := avoidIn[b]; !ok || fi.idx[a] < cur {
			avoidIn[b] = fi.idx[a]
		}
	}
	tb := to.Block()
	seen := map[*ssa.BasicBlock]bool{}
	var stack []*ssa.BasicBlock
	stack = append(stack, from)
	for len(stack) > 0 {
		b := stack[len(stack)-1]
		stack = stack[:len(stack)-1]
		if seen[b] {
			continue
		}
		seen[b] = true
		ai, blocked := avoidIn[b]
		if b == tb {
			if !blocked || fi.idx[to] <= ai {
				return true
			}
			// blocked before reaching `to` in this block on this entry; other
			// entries into the block hit the same prefix, so not reachable here
			continue
		}
		if blocked {
			continue
		}
		stack = append(stack, b.Succs...)
	}
	return false
}

// instrReachesAvoiding: can control flow from just after instruction `from` reach
// instruction `to` without executing any of the `avoid` instructions?
func (fi *FuncInfo) instrReachesAvoiding(from, to ssa.Instruction, avoid []ssa.Instruction) bool {
	fb := from.Block()
	lo := fi.idx[from]
	// rest of from's block
	first := -1
	for _, a := range avoid {
		if a.Block() == fb && fi.idx[a] > lo && (first < 0 || fi.idx[a] < first) {
			first = fi.idx[a]
		}
	}
	if to.Block() == fb && fi.idx[to] > lo && (first < 0 || fi.idx[to] <= first) {
		return true
	}
	if first >= 0 {
		return false
	}
	for _, s := range fb.Succs {
		if fi.blockReachesAvoiding(s, to, avoid) {
			return true
		}
	}
	return false
}

// Edge identifies a CFG edge by predecessor block and successor slot; Site is the call
// site through which a spliced helper's block was entered (nil for the function's own).
type Edge struct {
	From *ssa.BasicBlock
	Slot int
	Site *spliceSite
}

// reachFrom returns the set of blocks reachable from the given start blocks when the
// edges in `cut` are deleted (start blocks included), walking through spliced helpers.
func reachFrom(starts []*ssa.BasicBlock, cut map[Edge]bool) map[*ssa.BasicBlock]bool {
	return reachFromNodes(nodesOf(starts), cut)
}

func reachFromNodes(starts []Node, cut map[Edge]bool) map[*ssa.BasicBlock]bool {
	out := map[*ssa.BasicBlock]bool{}
	for n := range reachNodes(starts, cut) {
		out[n.B] = true
	}
	return out
}

// reachNodes: the same, keeping the context each block was reached in.
func reachNodes(starts []Node, cut map[Edge]bool) map[Node]bool {
	seen := map[Node]bool{}
	stack := append([]Node(nil), starts...)
	for len(stack) > 0 {
		n := stack[len(stack)-1]
		stack = stack[:len(stack)-1]
		if seen[n] {
			continue
		}
		seen[n] = true
		stack = append(stack, succNodes(n, cut)...)
	}
	return seen
}

// pathTo returns one block path from start to target avoiding cut edges (for reports).
func pathTo(start, target *ssa.BasicBlock, cut map[Edge]bool) []*ssa.BasicBlock {
	type link struct {
		prev Node
		has  bool
	}
	s0 := Node{B: start}
	prev := map[Node]link{s0: {}}
	queue := []Node{s0}
	for len(queue) > 0 {
		n := queue[0]
		queue = queue[1:]
		if n.B == target {
			var out []*ssa.BasicBlock
			for cur, ok := n, true; ok; {
				out = append([]*ssa.BasicBlock{cur.B}, out...)
				l := prev[cur]
				cur, ok = l.prev, l.has
			}
			return out
		}
		for _, s := range succNodes(n, cut) {
			if _, ok := prev[s]; !ok {
				prev[s] = link{n, true}
				queue = append(queue, s)
			}
		}
	}
	return nil
}
