package main

import (
	"go/constant"
	"go/token"

	"golang.org/x/tools/go/ssa"
)

// FuncInfo caches per-function CFG facts.
type FuncInfo struct {
	fn    *ssa.Function
	reach [][]bool // reach[a][b]: b reachable from a by >= 1 edge
	idx   map[ssa.Instruction]int
}

func (p *Prog) info(fn *ssa.Function) *FuncInfo {
	if fi, ok := p.funcInfo[fn]; ok {
		return fi
	}
	n := len(fn.Blocks)
	fi := &FuncInfo{fn: fn, reach: make([][]bool, n), idx: map[ssa.Instruction]int{}}
	for _, b := range fn.Blocks {
		for i, in := range b.Instrs {
			fi.idx[in] = i
		}
	}
	for i := range fn.Blocks {
		r := make([]bool, n)
		var stack []*ssa.BasicBlock
		stack = append(stack, fn.Blocks[i].Succs...)
		for len(stack) > 0 {
			b := stack[len(stack)-1]
			stack = stack[:len(stack)-1]
			if r[b.Index] {
				continue
			}
			r[b.Index] = true
			stack = append(stack, b.Succs...)
		}
		fi.reach[i] = r
	}
	p.funcInfo[fn] = fi
	computeThreading(fn)
	return fi
}

// threadMap: jump threading for branches on a boolean phi of constants
// (`found := false; for … { if c { found = true; break } }; if !found {…}`).
// For such a block B (only phis + the If), an edge P->B continues to exactly one
// successor of B, determined by the constant P contributes to the phi.
// threadMap[B][P] = successor slot taken when entering B from P.
var threadMap = map[*ssa.BasicBlock]map[*ssa.BasicBlock]int{}

func computeThreading(fn *ssa.Function) {
	for _, b := range fn.Blocks {
		if len(b.Instrs) == 0 {
			continue
		}
		iff, ok := b.Instrs[len(b.Instrs)-1].(*ssa.If)
		if !ok {
			continue
		}
		onlyPhis := true
		for _, in := range b.Instrs[:len(b.Instrs)-1] {
			if _, ok := in.(*ssa.Phi); !ok {
				onlyPhis = false
			}
		}
		if !onlyPhis {
			continue
		}
		cond := iff.Cond
		neg := false
		if u, ok := cond.(*ssa.UnOp); ok && u.Op == token.NOT {
			// not possible inside a phi-only block, kept for clarity
			cond, neg = u.X, true
		}
		phi, ok := cond.(*ssa.Phi)
		if !ok || phi.Block() != b {
			continue
		}
		m := map[*ssa.BasicBlock]int{}
		okAll := true
		for i, e := range phi.Edges {
			c, ok := e.(*ssa.Const)
			if !ok || c.Value == nil || c.Value.Kind() != constant.Bool {
				okAll = false
				break
			}
			v := constant.BoolVal(c.Value)
			if neg {
				v = !v
			}
			slot := 1
			if v {
				slot = 0
			}
			m[b.Preds[i]] = slot
		}
		if okAll {
			threadMap[b] = m
		}
	}
}

// canReach: may control flow from just after a to b (a executes before b on some path)?
func (fi *FuncInfo) canReach(a, b ssa.Instruction) bool {
	if a == nil || b == nil {
		return true
	}
	ba, bb := a.Block(), b.Block()
	if ba == nil || bb == nil {
		return true
	}
	if ba == bb {
		if fi.idx[a] < fi.idx[b] {
			return true
		}
		return fi.reach[ba.Index][bb.Index]
	}
	return fi.reach[ba.Index][bb.Index]
}

// dominates: a executes before b on every path reaching b.
func (fi *FuncInfo) dominates(a, b ssa.Instruction) bool {
	ba, bb := a.Block(), b.Block()
	if ba == bb {
		return fi.idx[a] < fi.idx[b]
	}
	return ba.Dominates(bb)
}

// reachAvoiding: can control flow from the function entry reach instruction `to`
// without executing any of the `avoid` instructions?
func (fi *FuncInfo) entryReachesAvoiding(to ssa.Instruction, avoid []ssa.Instruction) bool {
	return fi.blockReachesAvoiding(fi.fn.Blocks[0], to, avoid)
}

// blockReachesAvoiding: can control flow from the start of block `from` reach
// instruction `to` without executing any of the `avoid` instructions?
func (fi *FuncInfo) blockReachesAvoiding(from *ssa.BasicBlock, to ssa.Instruction, avoid []ssa.Instruction) bool {
	avoidIn := map[*ssa.BasicBlock]int{} // block -> smallest index of an avoided instr
	for _, a := range avoid {
		b := a.Block()
		if cur, ok := avoidIn[b]; !ok || fi.idx[a] < cur {
			avoidIn[b] = fi.idx[a]
		}
	}
	tb := to.Block()
	seen := map[*ssa.BasicBlock]bool{}
	var stack []*ssa.BasicBlock
	stack = append(stack, from)
	for len(stack) > 0 {
		b := stack[len(stack)-1]
		stack = stack[:len(stack)-1]
		if seen[b] {
			continue
		}
		seen[b] = true
		ai, blocked := avoidIn[b]
		if b == tb {
			if !blocked || fi.idx[to] <= ai {
				return true
			}
			// blocked before reaching `to` in this block on this entry; other
			// entries into the block hit the same prefix, so not reachable here
			continue
		}
		if blocked {
			continue
		}
		stack = append(stack, b.Succs...)
	}
	return false
}

// Edge identifies a CFG edge by predecessor block and successor slot.
type Edge struct {
	From *ssa.BasicBlock
	Slot int
}

// reachableBlocks returns the set of blocks reachable from the given start
// blocks/edges when the edges in `cut` are deleted. Block `from` itself is
// included for each start block.
func reachFrom(starts []*ssa.BasicBlock, cut map[Edge]bool) map[*ssa.BasicBlock]bool {
	seen := map[*ssa.BasicBlock]bool{}
	stack := append([]*ssa.BasicBlock(nil), starts...)
	for len(stack) > 0 {
		b := stack[len(stack)-1]
		stack = stack[:len(stack)-1]
		if seen[b] {
			continue
		}
		seen[b] = true
		for i, s := range b.Succs {
			if cut[Edge{b, i}] {
				continue
			}
			if th, ok := threadMap[s]; ok {
				if slot, ok := th[b]; ok {
					// entering the phi-branch block s from b continues to exactly one successor
					if !cut[Edge{s, slot}] {
						stack = append(stack, s.Succs[slot])
					}
					continue
				}
			}
			stack = append(stack, s)
		}
	}
	return seen
}

// pathTo returns one block path from start to target avoiding cut edges (for reports).
func pathTo(start, target *ssa.BasicBlock, cut map[Edge]bool) []*ssa.BasicBlock {
	prev := map[*ssa.BasicBlock]*ssa.BasicBlock{start: nil}
	queue := []*ssa.BasicBlock{start}
	for len(queue) > 0 {
		b := queue[0]
		queue = queue[1:]
		if b == target {
			var out []*ssa.BasicBlock
			for x := b; x != nil; x = prev[x] {
				out = append([]*ssa.BasicBlock{x}, out...)
			}
			return out
		}
		for i, s := range b.Succs {
			if cut[Edge{b, i}] {
				continue
			}
			if th, ok := threadMap[s]; ok {
				if slot, ok := th[b]; ok {
					if cut[Edge{s, slot}] {
						continue
					}
					s = s.Succs[slot]
				}
			}
			if _, ok := prev[s]; !ok {
				prev[s] = b
				queue = append(queue, s)
			}
		}
	}
	return nil
}
