package main

import (
	"fmt"
	"go/token"
	"go/types"
	"sort"
	"strings"

	"golang.org/x/tools/go/ssa"
)

// wiring.go: the functions analysed are the functions served, and the keeper they run on is
// the one the application injected. These are exact structural rules over seven small
// functions (constructors and AppModule entry points): which calls they make, with which
// values, and what they return. Every property asks them: a decorator around the message
// server, a keeper rebuilt with a wrapped dependency, or an AppModule hook that edits the
// genesis state around the analysed InitGenesis / ExportGenesis would make every rule table
// describe code that is not what runs.

// stripIface removes interface conversions.
func stripIface(v ssa.Value) ssa.Value {
	for {
		switch o := v.(type) {
		case *ssa.MakeInterface:
			v = o.X
		case *ssa.ChangeInterface:
			v = o.X
		case *ssa.ChangeType:
			v = o.X
		default:
			return v
		}
	}
}

func stripConv(v ssa.Value) ssa.Value {
	for {
		v = stripIface(v)
		if c, ok := v.(*ssa.Convert); ok {
			v = c.X
			continue
		}
		return v
	}
}

// paramField: v is field F of (value or pointer) parameter i of fn, read directly.
func paramField(fn *ssa.Function, v ssa.Value) (int, string, bool) {
	v = stripIface(v)
	idx := func(p ssa.Value) int {
		for i, q := range fn.Params {
			if ssa.Value(q) == p {
				return i
			}
		}
		return -1
	}
	switch o := v.(type) {
	case *ssa.Field:
		if i := idx(o.X); i >= 0 {
			st := o.X.Type().Underlying().(*types.Struct)
			return i, st.Field(o.Field).Name(), true
		}
	case *ssa.UnOp:
		if o.Op != token.MUL {
			return 0, "", false
		}
		fa, ok := o.X.(*ssa.FieldAddr)
		if !ok {
			return 0, "", false
		}
		if i := idx(fa.X); i >= 0 {
			return i, fieldName(fa), true
		}
		// a spilled value parameter: Alloc with the single store of the parameter
		if a, ok := fa.X.(*ssa.Alloc); ok {
			var stored ssa.Value
			n := 0
			for _, r := range *a.Referrers() {
				if st, ok := r.(*ssa.Store); ok && st.Addr == ssa.Value(a) {
					stored = st.Val
					n++
				}
			}
			if n == 1 {
				if i := idx(stored); i >= 0 {
					// no other writer of the field
					for _, r := range *a.Referrers() {
						if ofa, ok := r.(*ssa.FieldAddr); ok {
							for _, fr := range *ofa.Referrers() {
								if st, ok := fr.(*ssa.Store); ok && st.Addr == ssa.Value(ofa) {
									return 0, "", false
								}
							}
						}
					}
					return i, fieldName(fa), true
				}
			}
		}
	}
	return 0, "", false
}

// callsOf lists the call instructions of fn (calls, defers, go) in order, closures excluded.
func callsOf(fn *ssa.Function) []ssa.CallInstruction {
	var out []ssa.CallInstruction
	for _, b := range fn.Blocks {
		for _, in := range b.Instrs {
			if c, ok := in.(ssa.CallInstruction); ok {
				if _, isBuiltin := c.Common().Value.(*ssa.Builtin); isBuiltin {
					continue
				}
				out = append(out, c)
			}
		}
	}
	return out
}

func calleeLabel(c ssa.CallInstruction) string {
	cc := c.Common()
	if cc.IsInvoke() {
		return "invoke." + cc.Method.Name()
	}
	if f := cc.StaticCallee(); f != nil {
		return funcName(f)
	}
	return "dynamic"
}

func hasClosures(fn *ssa.Function) bool { return len(fn.AnonFuncs) > 0 }

func wiringExact(p *Prog, r *Report) {
	type ck struct {
		name string
		fn   func(fn *ssa.Function) string // "" when the shape is the expected one
	}
	labels := func(fn *ssa.Function) []string {
		var out []string
		for _, c := range callsOf(fn) {
			out = append(out, calleeLabel(c))
		}
		return out
	}
	wantCalls := func(fn *ssa.Function, want ...string) string {
		got := labels(fn)
		if strings.Join(got, ",") != strings.Join(want, ",") {
			return fmt.Sprintf("makes the calls %v, expected exactly %v", got, want)
		}
		if hasClosures(fn) {
			return "declares a closure"
		}
		for _, b := range fn.Blocks {
			for _, in := range b.Instrs {
				if _, ok := in.(*ssa.Defer); ok {
					return "defers a call"
				}
				if _, ok := in.(*ssa.Go); ok {
					return "starts a goroutine"
				}
			}
		}
		return ""
	}
	keeperOf := func(fn *ssa.Function, v ssa.Value) bool {
		i, f, ok := paramField(fn, v)
		return ok && i == 0 && f == "keeper"
	}
	checks := []ck{
		{"keeper.NewMsgServerImpl", func(fn *ssa.Function) string {
			if w := wantCalls(fn); w != "" {
				return w
			}
			rets := allReturns(fn)
			if len(rets) != 1 {
				return "more than one return"
			}
			a, ok := stripIface(rets[0].Results[0]).(*ssa.Alloc)
			if !ok || !isNamed(a.Type().(*types.Pointer).Elem(), modPath+"/x/cctp/keeper", "msgServer") {
				return "does not return a fresh *msgServer"
			}
			n := 0
			for _, ref := range *a.Referrers() {
				switch ref := ref.(type) {
				case *ssa.FieldAddr:
					for _, fr := range *ref.Referrers() {
						st, ok := fr.(*ssa.Store)
						if !ok || st.Val != ssa.Value(fn.Params[0]) || fieldName(ref) != "Keeper" {
							return "the msgServer's fields are not exactly {Keeper: the parameter}"
						}
						n++
					}
				case *ssa.MakeInterface, *ssa.DebugRef:
				default:
					return fmt.Sprintf("the fresh msgServer is used by %T", ref)
				}
			}
			if n != 1 {
				return "the msgServer's Keeper field is not set exactly once"
			}
			return ""
		}},
		{"cctp.NewAppModule", func(fn *ssa.Function) string {
			if w := wantCalls(fn, "cctp.NewAppModuleBasic"); w != "" {
				return w
			}
			n := 0
			for _, b := range fn.Blocks {
				for _, in := range b.Instrs {
					if st, ok := in.(*ssa.Store); ok {
						if fa, ok := st.Addr.(*ssa.FieldAddr); ok && fieldName(fa) == "keeper" {
							if st.Val != ssa.Value(fn.Params[0]) {
								return "the module's keeper is not the parameter"
							}
							n++
						}
					}
				}
			}
			if n != 1 {
				return "the module's keeper field is not set exactly once"
			}
			return ""
		}},
		{"cctp.ProvideModule", func(fn *ssa.Function) string {
			if w := wantCalls(fn, "keeper.NewKeeper", "cctp.NewAppModule"); w != "" {
				return w
			}
			cs := callsOf(fn)
			want := []string{"Cdc", "Logger", "StoreService", "BankKeeper", "FiatTokenFactoryKeeper"}
			for i, a := range cs[0].Common().Args {
				pi, f, ok := paramField(fn, a)
				if !ok || pi != 0 || i >= len(want) || f != want[i] {
					return fmt.Sprintf("NewKeeper argument %d is not the injected in.%s", i, want[min(i, len(want)-1)])
				}
			}
			if cs[1].Common().Args[0] != cs[0].Value() {
				return "NewAppModule is not given the keeper just built"
			}
			// the outputs: Keeper = that keeper, Module = that module
			for _, b := range fn.Blocks {
				for _, in := range b.Instrs {
					if st, ok := in.(*ssa.Store); ok {
						if fa, ok := st.Addr.(*ssa.FieldAddr); ok {
							switch fieldName(fa) {
							case "Keeper":
								if st.Val != ssa.Value(cs[0].Value()) {
									return "the provided Keeper is not the keeper just built"
								}
							case "Module":
								if stripIface(st.Val) != ssa.Value(cs[1].Value()) {
									return "the provided Module is not the module just built"
								}
							}
						}
					}
				}
			}
			return ""
		}},
		{"cctp.AppModule.RegisterServices", func(fn *ssa.Function) string {
			if w := wantCalls(fn, "invoke.MsgServer", "keeper.NewMsgServerImpl", "types.RegisterMsgServer", "invoke.QueryServer", "types.RegisterQueryServer"); w != "" {
				return w
			}
			cs := callsOf(fn)
			if !keeperOf(fn, cs[1].Common().Args[0]) {
				return "NewMsgServerImpl is not given the module's keeper"
			}
			if cs[2].Common().Args[0] != cs[0].Value() || cs[2].Common().Args[1] != cs[1].Value() {
				return "RegisterMsgServer is not given cfg.MsgServer() and NewMsgServerImpl(keeper) themselves"
			}
			if cs[4].Common().Args[0] != cs[3].Value() || !keeperOf(fn, cs[4].Common().Args[1]) {
				return "RegisterQueryServer is not given cfg.QueryServer() and the module's keeper themselves"
			}
			return ""
		}},
		{"cctp.AppModule.InitGenesis", func(fn *ssa.Function) string {
			if w := wantCalls(fn, "invoke.MustUnmarshalJSON", "cctp.InitGenesis"); w != "" {
				return w
			}
			cs := callsOf(fn)
			g, ok := stripIface(cs[0].Common().Args[1]).(*ssa.Alloc)
			if !ok || stripConv(cs[0].Common().Args[0]) != ssa.Value(fn.Params[3]) {
				return "does not decode its bz parameter into a fresh local"
			}
			for _, ref := range *g.Referrers() {
				switch ref := ref.(type) {
				case *ssa.MakeInterface, *ssa.DebugRef:
				case *ssa.UnOp:
					if ref != cs[1].Common().Args[2] {
						return "the decoded state is read elsewhere"
					}
				case *ssa.Store:
					return "the decoded state is assigned"
				default:
					return fmt.Sprintf("the decoded state is used by %T", ref)
				}
			}
			if stripConv(cs[1].Common().Args[0]) != ssa.Value(fn.Params[1]) || !keeperOf(fn, cs[1].Common().Args[1]) {
				return "InitGenesis is not given the hook's ctx and the module's keeper"
			}
			if lo, ok := cs[1].Common().Args[2].(*ssa.UnOp); !ok || lo.X != ssa.Value(g) {
				return "InitGenesis is not given the decoded state itself"
			}
			return ""
		}},
		{"cctp.AppModule.ExportGenesis", func(fn *ssa.Function) string {
			if w := wantCalls(fn, "cctp.ExportGenesis", "invoke.MustMarshalJSON"); w != "" {
				return w
			}
			cs := callsOf(fn)
			if stripConv(cs[0].Common().Args[0]) != ssa.Value(fn.Params[1]) || !keeperOf(fn, cs[0].Common().Args[1]) {
				return "ExportGenesis is not given the hook's ctx and the module's keeper"
			}
			if stripIface(cs[1].Common().Args[0]) != cs[0].Value() {
				return "MustMarshalJSON is not given ExportGenesis' result itself"
			}
			if refs := cs[0].Value().Referrers(); refs == nil || len(*refs) != 1 {
				return "ExportGenesis' result is used otherwise than being marshalled"
			}
			rets := allReturns(fn)
			if len(rets) != 1 || stripIface(rets[0].Results[0]) != ssa.Value(cs[1].Value()) {
				if cv, ok := rets[0].Results[0].(*ssa.Convert); !ok || cv.X != ssa.Value(cs[1].Value()) {
					return "does not return the marshalled bytes themselves"
				}
			}
			return ""
		}},
		{"cctp.AppModuleBasic.ValidateGenesis", func(fn *ssa.Function) string {
			if w := wantCalls(fn, "invoke.UnmarshalJSON", "fmt.Errorf", "(types.GenesisState).Validate"); w != "" {
				// the order of blocks may differ: compare as sets
				got := labels(fn)
				sort.Strings(got)
				if strings.Join(got, ",") != "(types.GenesisState).Validate,fmt.Errorf,invoke.UnmarshalJSON" {
					return w
				}
			}
			var dec, val ssa.CallInstruction
			for _, c := range callsOf(fn) {
				switch calleeLabel(c) {
				case "invoke.UnmarshalJSON":
					dec = c
				case "(types.GenesisState).Validate":
					val = c
				}
			}
			g, ok := stripIface(dec.Common().Args[1]).(*ssa.Alloc)
			if !ok || stripConv(dec.Common().Args[0]) != ssa.Value(fn.Params[3]) {
				return "does not decode its bz parameter into a fresh local"
			}
			for _, ref := range *g.Referrers() {
				switch ref := ref.(type) {
				case *ssa.MakeInterface, *ssa.DebugRef:
				case *ssa.UnOp:
					if ssa.Value(ref) != val.Common().Args[0] {
						return "the decoded state is read elsewhere"
					}
				default:
					return fmt.Sprintf("the decoded state is used by %T", ref)
				}
			}
			if lo, ok := val.Common().Args[0].(*ssa.UnOp); !ok || lo.X != ssa.Value(g) {
				return "Validate is not called on the decoded state itself"
			}
			// every return hands back Validate's verdict or a (non-nil) decode error
			for _, ret := range allReturns(fn) {
				v := ret.Results[0]
				if v == val.Value() {
					continue
				}
				if c, ok := v.(*ssa.Call); ok && calleeLabel(c) == "fmt.Errorf" {
					continue
				}
				return "a return yields neither Validate's verdict nor the decode error"
			}
			// the decode error, when non-nil, is returned
			okErr := false
			for _, ref := range *dec.Value().Referrers() {
				if bo, ok := ref.(*ssa.BinOp); ok && (bo.Op == token.NEQ || bo.Op == token.EQL) {
					okErr = true
				}
			}
			if !okErr {
				return "the decode error is not tested"
			}
			return ""
		}},
	}
	for _, c := range checks {
		fn := p.Func(c.name)
		if fn == nil || fn.Blocks == nil {
			r.fail("wiring", "wiring-exact/"+c.name, "", "function not found")
			continue
		}
		why := func() (w string) {
			defer func() {
				if e := recover(); e != nil {
					w = fmt.Sprintf("shape not recognised (%v)", e)
				}
			}()
			return c.fn(fn)
		}()
		r.check(why == "", "wiring", "wiring-exact/"+c.name, p.pos(fn.Pos()), "exactly the reference wiring (calls, arguments, result)",
			c.name+" "+why+": what is served / imported / exported is no longer exactly what the rule tables analyse")
	}
	// who builds keepers and servers, and who assigns a keeper's fields
	allowedCaller := map[string]string{"keeper.NewKeeper": "cctp.ProvideModule", "keeper.NewMsgServerImpl": "(cctp.AppModule).RegisterServices", "cctp.NewAppModule": "cctp.ProvideModule"}
	var bad []string
	for _, fn := range p.Funcs {
		for _, b := range fn.Blocks {
			for _, in := range b.Instrs {
				switch in := in.(type) {
				case ssa.CallInstruction:
					if callee := in.Common().StaticCallee(); callee != nil && !in.Common().IsInvoke() {
						if want, ok := allowedCaller[funcName(callee)]; ok && funcName(fn) != want {
							bad = append(bad, fmt.Sprintf("%s calls %s at %s", funcName(fn), funcName(callee), p.instrPos(in)))
						}
					}
					// a constructor taken as a function value
				case *ssa.Store:
					if fa, ok := in.Addr.(*ssa.FieldAddr); ok {
						base := fa.X.Type().Underlying().(*types.Pointer).Elem()
						if isKeeperType(base) || (isNamed(base, modPath+"/x/cctp", "AppModule") && fieldName(fa) == "keeper") {
							switch funcName(fn) {
							case "keeper.NewKeeper", "keeper.NewMsgServerImpl", "cctp.NewAppModule":
							default:
								bad = append(bad, fmt.Sprintf("%s assigns %s.%s at %s", funcName(fn), typeStr(base), fieldName(fa), p.instrPos(in)))
							}
						}
					}
					if _, isAlloc := in.Addr.(*ssa.Alloc); !isAlloc && isKeeperStruct(in.Val.Type()) {
						bad = append(bad, fmt.Sprintf("%s overwrites a whole keeper at %s", funcName(fn), p.instrPos(in)))
					}
				}
			}
		}
		// constructors used as values
		for _, b := range fn.Blocks {
			for _, in := range b.Instrs {
				var ops []*ssa.Value
				for _, op := range in.Operands(ops) {
					if f, ok := (*op).(*ssa.Function); ok && allowedCaller[funcName(f)] != "" {
						if c, isCall := in.(ssa.CallInstruction); isCall && c.Common().Value == ssa.Value(f) {
							continue
						}
						bad = append(bad, fmt.Sprintf("%s takes %s as a value at %s", funcName(fn), funcName(f), p.instrPos(in)))
					}
				}
			}
		}
	}
	r.check(len(bad) == 0, "wiring", "wiring-exact/keeper-identity", "", "keepers, message servers and modules are built only by the reference wiring; no keeper field is assigned outside the constructors",
		fmt.Sprintf("a keeper is rebuilt or altered outside the constructors (the term `k` would no longer name the injected keeper): %v", bad))
}

func isKeeperStruct(T types.Type) bool {
	if _, isPtr := T.Underlying().(*types.Pointer); isPtr {
		return false
	}
	return isKeeperType(T)
}

// moduleNamed returns the module-declared named type behind T (through a pointer), or nil.
func (p *Prog) moduleNamed(T types.Type) *types.Named {
	if ptr, ok := T.(*types.Pointer); ok {
		T = ptr.Elem()
	}
	n, ok := T.(*types.Named)
	if !ok || n.Obj().Pkg() == nil || !p.isModulePkgPath(n.Obj().Pkg().Path()) {
		return nil
	}
	return n
}

// convertedTypes: module-declared types that module code converts to an interface value
// (so that code outside the module — fmt, sort, the SDK — may call their methods).
func (p *Prog) convertedTypes() map[string][]string {
	out := map[string][]string{}
	for _, fn := range p.Funcs {
		for _, b := range fn.Blocks {
			for _, in := range b.Instrs {
				mi, ok := in.(*ssa.MakeInterface)
				if !ok {
					continue
				}
				if n := p.moduleNamed(mi.X.Type()); n != nil {
					out[typeStr(n)] = append(out[typeStr(n)], funcName(fn)+" @"+p.instrPos(in))
				}
			}
		}
	}
	return out
}

func dumpConverted(p *Prog) {
	ct := p.convertedTypes()
	var names []string
	for n := range ct {
		names = append(names, n)
	}
	sort.Strings(names)
	for _, n := range names {
		fmt.Printf("%-45s %d  %s\n", n, len(ct[n]), ct[n][0])
	}
}

// moduleHooks: the method sets of AppModule / AppModuleBasic are what the SDK's module manager
// discovers by interface assertion (HasGenesis, HasServices, HasEndBlocker, HasPreBlocker, …).
// A new method is a new entry point that runs in consensus without any transaction; the rule
// tables know exactly the reference tree's.
var appModuleMethods = map[string]bool{
	"AutoCLIOptions": true, "ConsensusVersion": true, "DefaultGenesis": true, "ExportGenesis": true, "GetQueryCmd": true, "GetTxCmd": true,
	"InitGenesis": true, "IsAppModule": true, "IsOnePerModuleType": true, "Name": true, "RegisterGRPCGatewayRoutes": true, "RegisterInterfaces": true,
	"RegisterLegacyAminoCodec": true, "RegisterServices": true, "ValidateGenesis": true,
}

func moduleHooksObligation(p *Prog, r *Report) {
	sp := p.SPkgs[modulePkgs[2]]
	var bad []string
	n := 0
	for _, tn := range []string{"AppModule", "AppModuleBasic"} {
		obj := sp.Pkg.Scope().Lookup(tn)
		if obj == nil {
			// the root package may not be modulePkgs[0]
			continue
		}
		for _, T := range []types.Type{obj.Type(), types.NewPointer(obj.Type())} {
			ms := p.SSA.MethodSets.MethodSet(T)
			for i := 0; i < ms.Len(); i++ {
				n++
				if !appModuleMethods[ms.At(i).Obj().Name()] {
					bad = append(bad, tn+"."+ms.At(i).Obj().Name())
				}
			}
		}
	}
	bad = dedup(bad)
	r.check(len(bad) == 0 && n > 0, "wiring", "wiring-exact/module-hooks", "", fmt.Sprintf("AppModule / AppModuleBasic have exactly the reference tree's %d methods (no new begin/end-block, pre-block or migration hook)", len(appModuleMethods)),
		fmt.Sprintf("new module-manager entry points %v: code the SDK runs in consensus outside every transaction, which no rule table covers", bad))
}
