package main

import (
	_ "embed"
	"fmt"
	"go/ast"
	"go/token"
	"go/types"
	"os"
	"path/filepath"
	"sort"
	"strings"

	"golang.org/x/tools/go/packages"
	"golang.org/x/tools/go/ssa"
	"golang.org/x/tools/go/ssa/ssautil"
)

const modPath = "github.com/circlefin/noble-cctp"

var modulePkgs = []string{
	modPath + "/x/cctp/types",
	modPath + "/x/cctp/keeper",
	modPath + "/x/cctp",
	modPath + "/x/cctp/client/cli",
}

//go:embed testdata/control.go.txt
var controlSource []byte

const controlPkgPath = modPath + "/x/cctp/zzverifcontrol"

// Prog is the loaded, type-checked and SSA-built program for one tree.
type Prog struct {
	Root  string
	Fset  *token.FileSet
	Pkgs  map[string]*packages.Package // module packages by path
	All   []*packages.Package
	SSA   *ssa.Program
	SPkgs map[string]*ssa.Package
	// module functions (non-generated files), incl. anonymous functions
	Funcs []*ssa.Function
	// positive-control fixture (virtual package, overlaid)
	Control      *packages.Package
	ControlSSA   *ssa.Package
	ControlFuncs []*ssa.Function
	funcInfo     map[*ssa.Function]*FuncInfo
	genFiles     map[string]bool // generated file names (absolute)
	modFiles     map[string]bool // non-generated module files (absolute)
	LoadS        float64
}

func goEnv() []string {
	env := os.Environ()
	out := env[:0:0]
	for _, e := range env {
		if strings.HasPrefix(e, "GOWORK=") || strings.HasPrefix(e, "GOFLAGS=") || strings.HasPrefix(e, "GOPROXY=") ||
			strings.HasPrefix(e, "GOSUMDB=") || strings.HasPrefix(e, "GOTOOLCHAIN=") {
			continue
		}
		out = append(out, e)
	}
	return append(out, "GOWORK=off", "GOFLAGS=-mod=mod", "GOPROXY=off", "GOSUMDB=off", "GOTOOLCHAIN=local")
}

// generatedFiles: the protoc outputs of the reference tree. Only these, in x/cctp/types,
// are exempt from the hand-written-code rules (a file that merely carries the suffix is
// ordinary module code); generatedObligation checks what they may contain.
var generatedFiles = map[string]bool{
	"attester.pb.go": true, "burn_message.pb.go": true, "burning_and_minting_paused.pb.go": true, "events.pb.go": true, "genesis.pb.go": true,
	"max_message_body_size.pb.go": true, "message.pb.go": true, "nonce.pb.go": true, "per_message_burn_limit.pb.go": true, "query.pb.go": true,
	"query.pb.gw.go": true, "remote_token_messenger.pb.go": true, "sending_and_receiving_messages_paused.pb.go": true, "signature_threshold.pb.go": true,
	"token_pair.pb.go": true, "tx.pb.go": true,
}

func isGeneratedName(name string) bool {
	if !(strings.HasSuffix(name, ".pb.go") || strings.HasSuffix(name, ".pb.gw.go")) {
		return false
	}
	dir, base := filepath.Split(name)
	return generatedFiles[base] && strings.HasSuffix(filepath.Clean(dir), filepath.Join("x", "cctp", "types"))
}

// Load loads ./x/... of the tree at root. Failures are returned as errors; the
// caller turns them into failed obligations (fail closed).
func Load(root string) (*Prog, error) {
	cfg := &packages.Config{
		Mode:  packages.LoadAllSyntax,
		Dir:   root,
		Env:   goEnv(),
		Tests: false,
		Overlay: map[string][]byte{
			filepath.Join(root, "x", "cctp", "zzverifcontrol", "control.go"): controlSource,
		},
	}
	pkgs, err := packages.Load(cfg, "./x/...")
	if err != nil {
		return nil, fmt.Errorf("packages.Load: %v", err)
	}
	if len(pkgs) == 0 {
		return nil, fmt.Errorf("no packages loaded from %s", root)
	}
	p := &Prog{Root: root, Pkgs: map[string]*packages.Package{}, All: pkgs, SPkgs: map[string]*ssa.Package{},
		funcInfo: map[*ssa.Function]*FuncInfo{}, genFiles: map[string]bool{}, modFiles: map[string]bool{}}
	var errs []string
	packages.Visit(pkgs, nil, func(pk *packages.Package) {
		if strings.HasPrefix(pk.PkgPath, modPath) {
			for _, e := range pk.Errors {
				errs = append(errs, e.Error())
			}
		}
	})
	if len(errs) > 0 {
		return nil, fmt.Errorf("type errors in module code: %s", strings.Join(errs, "; "))
	}
	for _, pk := range pkgs {
		p.Fset = pk.Fset
		if pk.PkgPath == controlPkgPath {
			p.Control = pk
			continue
		}
		p.Pkgs[pk.PkgPath] = pk
	}
	if p.Control != nil && len(p.Control.Errors) > 0 {
		return nil, fmt.Errorf("positive-control fixture does not type-check: %v", p.Control.Errors)
	}
	for _, want := range modulePkgs {
		if p.Pkgs[want] == nil {
			return nil, fmt.Errorf("expected module package %s did not load", want)
		}
	}
	// generic helpers are analysed per instantiation (each instance has a concrete body)
	prog, _ := ssautil.AllPackages(pkgs, ssa.InstantiateGenerics)
	prog.Build()
	p.SSA = prog
	for _, path := range modulePkgs {
		sp := prog.Package(p.Pkgs[path].Types)
		if sp == nil {
			return nil, fmt.Errorf("no SSA package for %s", path)
		}
		p.SPkgs[path] = sp
	}
	for _, path := range modulePkgs {
		pk := p.Pkgs[path]
		for i, f := range pk.Syntax {
			name := pk.CompiledGoFiles[i]
			_ = f
			if isGeneratedName(name) {
				p.genFiles[name] = true
			} else {
				p.modFiles[name] = true
			}
		}
	}
	// collect module functions
	seen := map[*ssa.Function]bool{}
	var add func(fn *ssa.Function)
	add = func(fn *ssa.Function) {
		if fn == nil || seen[fn] || fn.Blocks == nil {
			return
		}
		if !p.inModuleCode(fn) {
			return
		}
		seen[fn] = true
		p.Funcs = append(p.Funcs, fn)
		for _, an := range fn.AnonFuncs {
			add(an)
		}
	}
	for _, path := range modulePkgs {
		sp := p.SPkgs[path]
		for _, m := range sp.Members {
			switch m := m.(type) {
			case *ssa.Function:
				add(m)
			case *ssa.Type:
				for _, T := range []types.Type{m.Type(), types.NewPointer(m.Type())} {
					ms := prog.MethodSets.MethodSet(T)
					for i := 0; i < ms.Len(); i++ {
						fn := prog.MethodValue(ms.At(i))
						if fn != nil && fn.Synthetic == "" {
							add(fn)
						}
					}
				}
			}
		}
	}
	// instances of generic module functions (and their closures); the generic bodies
	// themselves (types still parameters) are never executed and are left out
	for fn := range ssautil.AllFunctions(prog) {
		if o := fn.Origin(); o != nil && o != fn {
			add(fn)
		}
	}
	var concrete []*ssa.Function
	for _, fn := range p.Funcs {
		top := fn
		for top.Parent() != nil {
			top = top.Parent()
		}
		if top.TypeParams().Len() > 0 && len(top.TypeArgs()) == 0 {
			continue
		}
		concrete = append(concrete, fn)
	}
	p.Funcs = concrete
	sort.Slice(p.Funcs, func(i, j int) bool { return p.Funcs[i].String() < p.Funcs[j].String() })
	if p.Control != nil {
		p.ControlSSA = prog.Package(p.Control.Types)
		if p.ControlSSA != nil {
			var addc func(fn *ssa.Function)
			addc = func(fn *ssa.Function) {
				if fn == nil || fn.Blocks == nil {
					return
				}
				p.ControlFuncs = append(p.ControlFuncs, fn)
				for _, an := range fn.AnonFuncs {
					addc(an)
				}
			}
			for _, m := range p.ControlSSA.Members {
				switch m := m.(type) {
				case *ssa.Function:
					if m.Synthetic == "" {
						addc(m)
					}
				case *ssa.Type:
					for _, T := range []types.Type{m.Type(), types.NewPointer(m.Type())} {
						ms := prog.MethodSets.MethodSet(T)
						for i := 0; i < ms.Len(); i++ {
							if fn := prog.MethodValue(ms.At(i)); fn != nil && fn.Synthetic == "" {
								addc(fn)
							}
						}
					}
				}
			}
			sort.Slice(p.ControlFuncs, func(i, j int) bool { return p.ControlFuncs[i].String() < p.ControlFuncs[j].String() })
		}
	}
	curProg = p
	return p, nil
}

// inModuleCode reports whether fn's source is in a non-generated file of a module package.
func (p *Prog) inModuleCode(fn *ssa.Function) bool {
	if o := fn.Origin(); o != nil && o != fn {
		return p.inModuleCode(o) // instance of a generic module function
	}
	if fn.Pkg == nil && fn.Parent() != nil {
		return p.inModuleCode(fn.Parent())
	}
	if fn.Pkg == nil {
		return false
	}
	if _, ok := p.SPkgs[fn.Pkg.Pkg.Path()]; !ok {
		return false
	}
	if fn.Synthetic != "" {
		// package initialisers are synthetic but belong to module code
		return fn.Name() == "init"
	}
	pos := fn.Pos()
	if !pos.IsValid() {
		return false
	}
	return p.modFiles[p.Fset.Position(pos).Filename]
}

func (p *Prog) isModulePkgPath(path string) bool {
	_, ok := p.SPkgs[path]
	return ok
}

func (p *Prog) pos(pos token.Pos) string {
	if !pos.IsValid() {
		return "-"
	}
	ps := p.Fset.Position(pos)
	rel, err := filepath.Rel(p.Root, ps.Filename)
	if err != nil {
		rel = ps.Filename
	}
	return fmt.Sprintf("%s:%d", rel, ps.Line)
}

// instrPos returns the best source position for an instruction (falling back to
// neighbouring instructions, since some SSA instructions carry NoPos).
func (p *Prog) instrPos(in ssa.Instruction) string {
	if in == nil {
		return "-"
	}
	if in.Pos().IsValid() {
		return p.pos(in.Pos())
	}
	if v, ok := in.(ssa.Value); ok {
		_ = v
	}
	b := in.Block()
	idx := -1
	for i, x := range b.Instrs {
		if x == in {
			idx = i
		}
	}
	for d := 1; d < len(b.Instrs); d++ {
		for _, j := range []int{idx - d, idx + d} {
			if j >= 0 && j < len(b.Instrs) && b.Instrs[j].Pos().IsValid() {
				return p.pos(b.Instrs[j].Pos()) + "~"
			}
		}
	}
	return p.pos(in.Parent().Pos()) + "~"
}

// Func finds a package-level function or method by short spec:
// "keeper.VerifyAttestationSignatures", "keeper.msgServer.ReceiveMessage",
// "types.*Message.Parse", "cctp.InitGenesis", "cli.parseAddress".
func (p *Prog) Func(spec string) *ssa.Function {
	parts := strings.Split(spec, ".")
	var pkgPath string
	switch parts[0] {
	case "types":
		pkgPath = modulePkgs[0]
	case "keeper":
		pkgPath = modulePkgs[1]
	case "cctp":
		pkgPath = modulePkgs[2]
	case "cli":
		pkgPath = modulePkgs[3]
	default:
		return nil
	}
	sp := p.SPkgs[pkgPath]
	if sp == nil {
		return nil
	}
	if len(parts) == 2 {
		return sp.Func(parts[1])
	}
	tn := parts[1]
	ptr := strings.HasPrefix(tn, "*")
	tn = strings.TrimPrefix(tn, "*")
	obj := sp.Pkg.Scope().Lookup(tn)
	if obj == nil {
		return nil
	}
	var T types.Type = obj.Type()
	if ptr {
		T = types.NewPointer(T)
	}
	sel := p.SSA.MethodSets.MethodSet(T).Lookup(sp.Pkg, parts[2])
	if sel == nil {
		return nil
	}
	return p.SSA.MethodValue(sel)
}

// srcFunc returns the declared (non-wrapper) function for a method selection,
// following synthetic wrappers for promoted methods to the real body.
func (p *Prog) declFunc(fn *ssa.Function) *ssa.Function {
	for fn != nil && fn.Synthetic != "" && fn.Object() != nil {
		obj, ok := fn.Object().(*types.Func)
		if !ok {
			break
		}
		real := p.SSA.FuncValue(obj)
		if real == nil || real == fn {
			break
		}
		fn = real
	}
	return fn
}

// fileOf returns the syntax file containing pos within module packages.
func (p *Prog) fileOf(pos token.Pos) *ast.File {
	for _, path := range modulePkgs {
		for _, f := range p.Pkgs[path].Syntax {
			if f.Pos() <= pos && pos <= f.End() {
				return f
			}
		}
	}
	return nil
}

// shortPkg maps an import path to the short alias used in printed terms.
func shortPkg(path string) string {
	switch path {
	case modPath + "/x/cctp/types":
		return "types"
	case modPath + "/x/cctp/keeper":
		return "keeper"
	case modPath + "/x/cctp":
		return "cctp"
	case modPath + "/x/cctp/client/cli":
		return "cli"
	case "github.com/cosmos/cosmos-sdk/types":
		return "sdk"
	case "cosmossdk.io/errors":
		return "sdkerrors"
	case "cosmossdk.io/math":
		return "sdkmath"
	case "github.com/circlefin/noble-fiattokenfactory/x/fiattokenfactory/types":
		return "ftf"
	case "cosmossdk.io/store/prefix":
		return "prefix"
	case "cosmossdk.io/store/types":
		return "storetypes"
	case "cosmossdk.io/core/store":
		return "corestore"
	case "github.com/cosmos/cosmos-sdk/runtime":
		return "runtime"
	case "github.com/cosmos/cosmos-sdk/types/query":
		return "query"
	case "github.com/cosmos/cosmos-sdk/types/bech32":
		return "bech32"
	case "github.com/ethereum/go-ethereum/crypto":
		return "ethcrypto"
	case "github.com/ethereum/go-ethereum/common":
		return "ethcommon"
	case "github.com/cosmos/cosmos-sdk/codec":
		return "codec"
	case "google.golang.org/grpc/status":
		return "status"
	case "google.golang.org/grpc/codes":
		return "codes"
	}
	if !strings.Contains(path, ".") {
		return path // stdlib: full path (bytes, strings, encoding/binary, math/big…)
	}
	parts := strings.Split(path, "/")
	if len(parts) >= 2 {
		return parts[len(parts)-2] + "/" + parts[len(parts)-1]
	}
	return path
}

func qualifier(pkg *types.Package) string {
	if pkg == nil {
		return ""
	}
	return shortPkg(pkg.Path())
}

func typeStr(T types.Type) string {
	return types.TypeString(T, qualifier)
}
