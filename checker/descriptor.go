package main

import (
	"bytes"
	"compress/gzip"
	"fmt"
	"go/ast"
	"go/token"
	"io"
	"strconv"
	"strings"
)

// E9: read the gzipped FileDescriptorProto byte literal of a generated file from
// its AST (source constants, nothing is executed) and walk the protobuf wire format.

type pbField struct {
	num    int
	wt     int
	varint uint64
	bytes  []byte
}

func pbParse(b []byte) ([]pbField, error) {
	var out []pbField
	for len(b) > 0 {
		tag, n := pbVarint(b)
		if n <= 0 {
			return nil, fmt.Errorf("bad tag")
		}
		b = b[n:]
		f := pbField{num: int(tag >> 3), wt: int(tag & 7)}
		switch f.wt {
		case 0:
			v, n := pbVarint(b)
			if n <= 0 {
				return nil, fmt.Errorf("bad varint")
			}
			f.varint = v
			b = b[n:]
		case 1:
			if len(b) < 8 {
				return nil, fmt.Errorf("short fixed64")
			}
			b = b[8:]
		case 2:
			l, n := pbVarint(b)
			if n <= 0 || int(l) > len(b)-n {
				return nil, fmt.Errorf("bad length")
			}
			f.bytes = b[n : n+int(l)]
			b = b[n+int(l):]
		case 5:
			if len(b) < 4 {
				return nil, fmt.Errorf("short fixed32")
			}
			b = b[4:]
		default:
			return nil, fmt.Errorf("unsupported wire type %d", f.wt)
		}
		out = append(out, f)
	}
	return out, nil
}

func pbVarint(b []byte) (uint64, int) {
	var v uint64
	for i := 0; i < len(b) && i < 10; i++ {
		v |= uint64(b[i]&0x7f) << (7 * uint(i))
		if b[i] < 0x80 {
			return v, i + 1
		}
	}
	return 0, 0
}

type descMessage struct {
	Name    string
	Fields  map[int]string // number -> name
	Signers []string
}

const signerExtension = 11110000 // cosmos.msg.v1.signer

// fileDescriptorMessages decodes the messages of the descriptor embedded in the
// named generated file of package types.
func (p *Prog) fileDescriptorMessages(fileSuffix string) ([]descMessage, error) {
	pk := p.Pkgs[modulePkgs[0]]
	for i, f := range pk.Syntax {
		if !strings.HasSuffix(pk.CompiledGoFiles[i], fileSuffix) {
			continue
		}
		var raw []byte
		ast.Inspect(f, func(n ast.Node) bool {
			vs, ok := n.(*ast.ValueSpec)
			if !ok || len(vs.Names) != 1 || !strings.HasPrefix(vs.Names[0].Name, "fileDescriptor_") || len(vs.Values) != 1 {
				return true
			}
			cl, ok := vs.Values[0].(*ast.CompositeLit)
			if !ok {
				return true
			}
			for _, e := range cl.Elts {
				bl, ok := e.(*ast.BasicLit)
				if !ok || bl.Kind != token.INT {
					continue
				}
				v, err := strconv.ParseUint(bl.Value, 0, 8)
				if err == nil {
					raw = append(raw, byte(v))
				}
			}
			return false
		})
		if len(raw) == 0 {
			return nil, fmt.Errorf("no fileDescriptor literal in %s", fileSuffix)
		}
		zr, err := gzip.NewReader(bytes.NewReader(raw))
		if err != nil {
			return nil, err
		}
		fd, err := io.ReadAll(zr)
		if err != nil {
			return nil, err
		}
		top, err := pbParse(fd)
		if err != nil {
			return nil, err
		}
		var out []descMessage
		for _, tf := range top {
			if tf.num != 4 || tf.wt != 2 { // message_type
				continue
			}
			mf, err := pbParse(tf.bytes)
			if err != nil {
				return nil, err
			}
			dm := descMessage{Fields: map[int]string{}}
			for _, x := range mf {
				switch {
				case x.num == 1 && x.wt == 2:
					dm.Name = string(x.bytes)
				case x.num == 2 && x.wt == 2: // field
					ff, err := pbParse(x.bytes)
					if err != nil {
						return nil, err
					}
					var name string
					var num int
					for _, y := range ff {
						if y.num == 1 && y.wt == 2 {
							name = string(y.bytes)
						}
						if y.num == 3 && y.wt == 0 {
							num = int(y.varint)
						}
					}
					dm.Fields[num] = name
				case x.num == 7 && x.wt == 2: // options
					of, err := pbParse(x.bytes)
					if err != nil {
						return nil, err
					}
					for _, y := range of {
						if y.num == signerExtension && y.wt == 2 {
							dm.Signers = append(dm.Signers, string(y.bytes))
						}
					}
				}
			}
			out = append(out, dm)
		}
		return out, nil
	}
	return nil, fmt.Errorf("generated file %s not found", fileSuffix)
}
