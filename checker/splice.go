package main

import (
	"go/constant"
	"go/token"

	"golang.org/x/tools/go/ssa"
)

// splice.go: walking THROUGH new helper functions (ones the reference tree does not have).
//
// A refactoring that moves checks or steps of a handler into new functions leaves the
// handler with calls. The cut engine's graph therefore makes a DETOUR through every new
// helper that has branches of its own:
//   - guard detour: a block B ends in `if helper(...) …` (or `if err := helper(…); err != nil`,
//     `v, ok := helper(…); if !ok`): B's branch is decided by the helper, so control goes to
//     the helper's entry and each of its returns continues at the successor(s) of B its result
//     selects (constant true/false; provably nil / provably non-nil error; otherwise both);
//   - procedure detour: any other call of such a helper in B: before B's terminator is taken,
//     control runs through the helper and comes back. (The instructions of B after the call
//     count as reached with B itself: that can only add paths.)
// Detours nest (a helper that calls a helper), up to three levels; each detour is specific to
// its call site and enclosing detour, so one helper used at two sites is walked once per site
// with that site's arguments. The helper's branches take part in cut / fail-arm / exactness
// queries with their atoms rewritten into the root function's frame.

type spliceSite struct {
	B      *ssa.BasicBlock // block of the enclosing frame the detour is attached to
	H      *ssa.Function
	Call   *ssa.Call
	parent *spliceSite // enclosing detour (nil: B is a block of the root function)
	idx    int         // position among B's detours
	guard  bool        // B's terminating If tests the helper's result
	tail   bool        // B's terminating Return returns the helper's results: its exits are B's function's
	ret    map[*ssa.BasicBlock][]int // guard: helper return block -> successor slots of B
	env    []*Term     // the helper's parameters as terms of the root frame
	depth  int
}

type detourKey struct {
	b      *ssa.BasicBlock
	parent *spliceSite
}

var detourCache = map[detourKey][]*spliceSite{}

const maxDetourDepth = 3

func branchCount(h *ssa.Function) int {
	n := 0
	for _, hb := range h.Blocks {
		if len(hb.Instrs) > 0 {
			if _, ok := hb.Instrs[len(hb.Instrs)-1].(*ssa.If); ok {
				n++
			}
		}
	}
	return n
}

// detours lists, in execution order, the detours attached to block b entered in context
// parent.
func (p *Prog) detours(b *ssa.BasicBlock, parent *spliceSite) []*spliceSite {
	key := detourKey{b, parent}
	if d, ok := detourCache[key]; ok {
		return d
	}
	detourCache[key] = nil
	depth := 0
	if parent != nil {
		depth = parent.depth
	}
	if depth >= maxDetourDepth || len(b.Instrs) == 0 {
		return nil
	}
	fn := b.Parent()
	onStack := func(h *ssa.Function) bool {
		if h == fn {
			return true
		}
		for s := parent; s != nil; s = s.parent {
			if s.H == h {
				return true
			}
		}
		return false
	}
	x := p.tx(fn)
	mkEnv := func(call *ssa.Call) []*Term {
		var env []*Term
		for _, a := range call.Call.Args {
			t := x.Of(a, call)
			if parent != nil {
				t = substTerm(markHelperCounters(t), parent.env)
			}
			env = append(env, t)
		}
		return env
	}
	// the guard detour of b's terminator
	var guardSite *spliceSite
	if iff, ok := b.Instrs[len(b.Instrs)-1].(*ssa.If); ok {
		if call, idx, isErr, trueWhenPos, ok := condHelperCall(iff.Cond); ok && call.Parent() == fn {
			if h := call.Call.StaticCallee(); p.newHelper(h) && !onStack(h) && branchCount(h) > 0 {
				hx := p.tx(h)
				p.info(h)
				sp := &spliceSite{B: b, H: h, Call: call, parent: parent, guard: true, ret: map[*ssa.BasicBlock][]int{}, depth: depth + 1}
				for _, hb := range h.Blocks {
					if len(hb.Instrs) == 0 {
						continue
					}
					r, ok := hb.Instrs[len(hb.Instrs)-1].(*ssa.Return)
					if !ok {
						continue
					}
					known, positive := false, false
					if idx < len(r.Results) {
						if isErr {
							switch p.exitKind(hx, r) {
							case "ok":
								known, positive = true, true
							case "error":
								known, positive = true, false
							}
							if idx != len(r.Results)-1 {
								known = false
							}
						} else if k, ok := r.Results[idx].(*ssa.Const); ok && k.Value != nil && k.Value.Kind() == constant.Bool {
							known, positive = true, constant.BoolVal(k.Value)
						}
					}
					if !known {
						sp.ret[hb] = []int{0, 1}
						continue
					}
					slot := 1
					if positive == trueWhenPos {
						slot = 0
					}
					sp.ret[hb] = []int{slot}
				}
				sp.env = mkEnv(call)
				guardSite = sp
			}
		}
	}
	var out []*spliceSite
	for _, in := range b.Instrs {
		call, ok := in.(*ssa.Call)
		if !ok {
			continue
		}
		if guardSite != nil && guardSite.Call == call {
			continue
		}
		h := call.Call.StaticCallee()
		if !p.newHelper(h) || onStack(h) || branchCount(h) == 0 {
			continue
		}
		if p.hasGuardDetour(call) {
			continue // walked where its result is tested
		}
		p.info(h)
		out = append(out, &spliceSite{B: b, H: h, Call: call, parent: parent, depth: depth + 1, env: mkEnv(call)})
	}
	if guardSite != nil {
		out = append(out, guardSite)
	}
	// `return helper(...)`: the helper's exits are this function's exits
	if ret, ok := b.Instrs[len(b.Instrs)-1].(*ssa.Return); ok {
		if call, ok := passthroughCall(ret.Results); ok && call.Parent() == fn && call.Block() == b {
			if h := call.Call.StaticCallee(); p.newHelper(h) && !onStack(h) && len(allReturns(h)) > 0 {
				// replace the procedure detour of the same call, if any
				var kept []*spliceSite
				for _, sp := range out {
					if sp.Call != call {
						kept = append(kept, sp)
					}
				}
				p.info(h)
				out = append(kept, &spliceSite{B: b, H: h, Call: call, parent: parent, tail: true, depth: depth + 1, env: mkEnv(call)})
			}
		}
	}
	for i, sp := range out {
		sp.idx = i
	}
	detourCache[key] = out
	return out
}

var guardDetourCache = map[*ssa.Call]int{}

// hasGuardDetour: is the result of this call tested by the terminating If of some block
// of its function (so that it is walked there rather than at the call)?
func (p *Prog) hasGuardDetour(call *ssa.Call) bool {
	if v, ok := guardDetourCache[call]; ok {
		return v == 1
	}
	guardDetourCache[call] = 0
	for _, b := range call.Parent().Blocks {
		if len(b.Instrs) == 0 {
			continue
		}
		if iff, ok := b.Instrs[len(b.Instrs)-1].(*ssa.If); ok {
			if c, _, _, _, ok := condHelperCall(iff.Cond); ok && c == call {
				guardDetourCache[call] = 1
				return true
			}
		}
	}
	return false
}

// guardDetour: the guard detour of block b in context parent (nil if its terminator is
// not decided by a new helper).
func (p *Prog) guardDetour(b *ssa.BasicBlock, parent *spliceSite) *spliceSite {
	ds := p.detours(b, parent)
	if n := len(ds); n > 0 && ds[n-1].guard {
		return ds[n-1]
	}
	return nil
}

var splicesCache = map[*ssa.Function][]*spliceSite{}

// splices: every detour reachable from fn's blocks (nested ones included).
func (p *Prog) splices(fn *ssa.Function) []*spliceSite {
	if s, ok := splicesCache[fn]; ok {
		return s
	}
	var out []*spliceSite
	var walk func(f *ssa.Function, parent *spliceSite)
	walk = func(f *ssa.Function, parent *spliceSite) {
		for _, b := range f.Blocks {
			for _, sp := range p.detours(b, parent) {
				out = append(out, sp)
				walk(sp.H, sp)
			}
		}
	}
	walk(fn, nil)
	splicesCache[fn] = out
	return out
}

// spliceIfs: the helper's branches as ifInfos in the root frame.
func (p *Prog) spliceIfs(x *TX, sp *spliceSite) []ifInfo {
	hx := p.tx(sp.H)
	var out []ifInfo
	for _, hb := range sp.H.Blocks {
		if len(hb.Instrs) == 0 {
			continue
		}
		if iff, ok := hb.Instrs[len(hb.Instrs)-1].(*ssa.If); ok {
			t := substTerm(markHelperCounters(hx.Of(iff.Cond, iff)), sp.env)
			ii := ifInfo{in: iff, atom: atomOfTerm(t), site: sp, t: t}
			if v, pred, neg, cs, ok := namedCondition(iff); ok {
				vt := substTerm(markHelperCounters(hx.Of(v, pred.Instrs[len(pred.Instrs)-1])), sp.env)
				if neg {
					vt = mk("un", "!", vt)
				}
				a := atomOfTerm(vt)
				ii.alt, ii.altT, ii.constSlot = &a, vt, cs
			}
			out = append(out, ii)
		}
	}
	return out
}

// Node is a position in the walked graph: a block, the detour through which it was
// entered (nil in the root function's own blocks), and how many of the block's own
// detours have been made already.
type Node struct {
	B    *ssa.BasicBlock
	Site *spliceSite
	Step int
}

func nodesOf(bs []*ssa.BasicBlock) []Node {
	var out []Node
	for _, b := range bs {
		out = append(out, Node{B: b})
	}
	return out
}

// enter: the node(s) control continues at when edge `from --slot-->` is taken in
// context site (applies jump threading on boolean-constant phis).
func enter(from *ssa.BasicBlock, slot int, site *spliceSite, cut map[Edge]bool) []Node {
	if cut[Edge{from, slot, site}] {
		return nil
	}
	s := from.Succs[slot]
	if th, ok := threadMap[s]; ok {
		if ts, ok := th[from]; ok {
			// a constant entry: the branch of s is not a decision on this path (a guard that
			// names the branch's deciding value does not apply to it)
			if _, named := namedBranch[s]; !named && cut[Edge{s, ts, site}] {
				return nil
			}
			return []Node{{B: s.Succs[ts], Site: site}}
		}
	}
	return []Node{{B: s, Site: site}}
}

// namedBranch: blocks whose branch is a named condition with a deciding predecessor
// (filled by computeThreading).
var namedBranch = map[*ssa.BasicBlock]bool{}

// succNodes: successors of n in the walked graph with the cut edges deleted.
func succNodes(n Node, cut map[Edge]bool) []Node {
	p := curProg
	b := n.B
	var ds []*spliceSite
	if p != nil {
		ds = p.detours(b, n.Site)
	}
	// next detour of this block
	if n.Step < len(ds) {
		sp := ds[n.Step]
		if sp.guard && (cut[Edge{b, 0, n.Site}] || cut[Edge{b, 1, n.Site}]) {
			// the branch itself is named by the guard: take it as an ordinary branch
		} else {
			return []Node{{B: sp.H.Blocks[0], Site: sp}}
		}
	}
	// a helper's return: back to the block the detour is attached to
	if n.Site != nil && len(b.Instrs) > 0 {
		if _, isRet := b.Instrs[len(b.Instrs)-1].(*ssa.Return); isRet {
			sp := n.Site
			if sp.tail {
				return nil // an exit of the enclosing function
			}
			if sp.guard {
				var out []Node
				for _, s := range sp.ret[b] {
					out = append(out, enter(sp.B, s, sp.parent, cut)...)
				}
				return out
			}
			return []Node{{B: sp.B, Site: sp.parent, Step: sp.idx + 1}}
		}
	}
	var out []Node
	for i := range b.Succs {
		out = append(out, enter(b, i, n.Site, cut)...)
	}
	return out
}

// condHelperCall: does the branch condition test the result of a call? Returns the
// call, which result index is tested, whether it is an error-vs-nil test, and whether
// the condition is true when (result is true / error is nil).
func condHelperCall(cond ssa.Value) (call *ssa.Call, idx int, isErr bool, trueWhenPos bool, ok bool) {
	pos := true
	for {
		u, isU := cond.(*ssa.UnOp)
		if !isU || u.Op != token.NOT {
			break
		}
		cond, pos = u.X, !pos
	}
	fromVal := func(v ssa.Value) (*ssa.Call, int, bool) {
		switch v := v.(type) {
		case *ssa.Call:
			return v, 0, true
		case *ssa.Extract:
			if c, ok := v.Tuple.(*ssa.Call); ok {
				return c, v.Index, true
			}
		}
		return nil, 0, false
	}
	if bo, isB := cond.(*ssa.BinOp); isB && (bo.Op == token.EQL || bo.Op == token.NEQ) {
		var ev ssa.Value
		if k, ok := bo.Y.(*ssa.Const); ok && k.Value == nil {
			ev = bo.X
		} else if k, ok := bo.X.(*ssa.Const); ok && k.Value == nil {
			ev = bo.Y
		}
		if ev == nil || !isErrorType(ev.Type()) {
			return nil, 0, false, false, false
		}
		c, i, ok := fromVal(ev)
		if !ok {
			return nil, 0, false, false, false
		}
		if bo.Op == token.NEQ {
			pos = !pos
		}
		return c, i, true, pos, true
	}
	c, i, ok2 := fromVal(cond)
	if !ok2 {
		return nil, 0, false, false, false
	}
	return c, i, false, pos, true
}

// markHelperCounters renames the loop counters of a spliced helper (#i0 -> #^i0): loop
// depth is relative to the function a loop is written in, so a helper's outermost loop
// must not be mistaken for the caller's.
func markHelperCounters(t *Term) *Term {
	if t == nil {
		return nil
	}
	if t.Op == "ind" {
		return &Term{Op: "ind", S: "#^" + t.S[1:], T: t.T}
	}
	if len(t.A) == 0 {
		return t
	}
	nt := &Term{Op: t.Op, S: t.S, F: t.F, T: t.T, Fn: t.Fn}
	for _, a := range t.A {
		nt.A = append(nt.A, markHelperCounters(a))
	}
	return nt
}

// tailChain: every detour from site up to the root is a tail call, so a return reached
// in this context is an exit of the root function.
func tailChain(sp *spliceSite) bool {
	for s := sp; s != nil; s = s.parent {
		if !s.tail {
			return false
		}
	}
	return true
}

// tailReturn: ret returns exactly the results of a call of a new helper made in its own block.
func (p *Prog) tailReturn(ret *ssa.Return) (*ssa.Function, bool) {
	call, ok := passthroughCall(ret.Results)
	if !ok || call.Parent() != ret.Parent() || call.Block() != ret.Block() {
		return nil, false
	}
	h := call.Call.StaticCallee()
	if !p.newHelper(h) || h == ret.Parent() || len(allReturns(h)) == 0 {
		return nil, false
	}
	return h, true
}
