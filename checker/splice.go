package main

import (
	"go/constant"
	"go/token"

	"golang.org/x/tools/go/ssa"
)

// splice.go: guards evaluated by a NEW helper function (one the reference tree does not
// have). A refactoring that moves a check into `func validateX(...) error` or
// `func isY(...) bool` leaves the handler with a branch on the helper's result only. The
// cut engine then walks THROUGH the helper: a block B of the caller that ends in
// `if helper(...) …` continues at the helper's entry, and each return of the helper
// continues at the successor(s) of B that its result selects (constant true/false,
// provably nil / provably non-nil error; anything else: both). The helper's own branches
// take part in cut / fail-arm / exactness queries with their atoms rewritten into the
// caller's frame (parameters replaced by the argument terms). One level deep, and
// context-sensitive in the call site (a helper used at two sites is walked once per site).

type spliceSite struct {
	B    *ssa.BasicBlock // caller block ending in the If on the helper's result
	H    *ssa.Function
	Call *ssa.Call
	ret  map[*ssa.BasicBlock][]int // helper return block -> successor slots of B it may continue at
}

var (
	spliceAt   = map[*ssa.BasicBlock]*spliceSite{}
	spliceDone = map[*ssa.Function]bool{}
	spliceOf   = map[*ssa.Function][]*spliceSite{}
)

// condHelperCall: does the branch condition test the result of a call? Returns the
// call, which result index is tested, whether it is an error-vs-nil test, and whether
// the condition is true when (result is true / error is nil).
func condHelperCall(cond ssa.Value) (call *ssa.Call, idx int, isErr bool, trueWhenPos bool, ok bool) {
	pos := true
	for {
		u, isU := cond.(*ssa.UnOp)
		if !isU || u.Op != token.NOT {
			break
		}
		cond, pos = u.X, !pos
	}
	fromVal := func(v ssa.Value) (*ssa.Call, int, bool) {
		switch v := v.(type) {
		case *ssa.Call:
			return v, 0, true
		case *ssa.Extract:
			if c, ok := v.Tuple.(*ssa.Call); ok {
				return c, v.Index, true
			}
		}
		return nil, 0, false
	}
	if bo, isB := cond.(*ssa.BinOp); isB && (bo.Op == token.EQL || bo.Op == token.NEQ) {
		var ev ssa.Value
		if k, ok := bo.Y.(*ssa.Const); ok && k.Value == nil {
			ev = bo.X
		} else if k, ok := bo.X.(*ssa.Const); ok && k.Value == nil {
			ev = bo.Y
		}
		if ev == nil || !isErrorType(ev.Type()) {
			return nil, 0, false, false, false
		}
		c, i, ok := fromVal(ev)
		if !ok {
			return nil, 0, false, false, false
		}
		if bo.Op == token.NEQ {
			pos = !pos
		}
		return c, i, true, pos, true
	}
	c, i, ok2 := fromVal(cond)
	if !ok2 {
		return nil, 0, false, false, false
	}
	return c, i, false, pos, true
}

func (p *Prog) splices(fn *ssa.Function) []*spliceSite {
	if spliceDone[fn] {
		return spliceOf[fn]
	}
	spliceDone[fn] = true
	for _, b := range fn.Blocks {
		if len(b.Instrs) == 0 {
			continue
		}
		iff, ok := b.Instrs[len(b.Instrs)-1].(*ssa.If)
		if !ok {
			continue
		}
		call, idx, isErr, trueWhenPos, ok := condHelperCall(iff.Cond)
		if !ok || call.Parent() != fn {
			continue
		}
		h := call.Call.StaticCallee()
		if !p.newHelper(h) || h == fn {
			continue
		}
		nIf := 0
		for _, hb := range h.Blocks {
			if len(hb.Instrs) > 0 {
				if _, ok := hb.Instrs[len(hb.Instrs)-1].(*ssa.If); ok {
					nIf++
				}
			}
		}
		if nIf == 0 {
			continue // straight-line helper: handled by term inlining
		}
		// (helpers that act are walked through as well: their effect sites are then targets in
		// their own right, see FC.expandSpliced)
		hx := p.tx(h)
		p.info(h) // threading inside the helper
		sp := &spliceSite{B: b, H: h, Call: call, ret: map[*ssa.BasicBlock][]int{}}
		for _, hb := range h.Blocks {
			if len(hb.Instrs) == 0 {
				continue
			}
			r, ok := hb.Instrs[len(hb.Instrs)-1].(*ssa.Return)
			if !ok {
				continue
			}
			known, positive := false, false
			if idx < len(r.Results) {
				if isErr {
					switch p.exitKind(hx, r) {
					case "ok":
						known, positive = true, true
					case "error":
						known, positive = true, false
					}
					if idx != len(r.Results)-1 {
						known = false
					}
				} else if k, ok := r.Results[idx].(*ssa.Const); ok && k.Value != nil && k.Value.Kind() == constant.Bool {
					known, positive = true, constant.BoolVal(k.Value)
				}
			}
			if !known {
				sp.ret[hb] = []int{0, 1}
				continue
			}
			slot := 1
			if positive == trueWhenPos {
				slot = 0
			}
			sp.ret[hb] = []int{slot}
		}
		spliceAt[b] = sp
		spliceOf[fn] = append(spliceOf[fn], sp)
	}
	return spliceOf[fn]
}

// spliceIfs: the helper's branches as ifInfos in the caller's frame.
func (p *Prog) spliceIfs(x *TX, sp *spliceSite) []ifInfo {
	hx := p.tx(sp.H)
	var env []*Term
	for _, a := range sp.Call.Call.Args {
		env = append(env, x.Of(a, sp.Call))
	}
	var out []ifInfo
	for _, hb := range sp.H.Blocks {
		if len(hb.Instrs) == 0 {
			continue
		}
		if iff, ok := hb.Instrs[len(hb.Instrs)-1].(*ssa.If); ok {
			t := substTerm(markHelperCounters(hx.Of(iff.Cond, iff)), env)
			out = append(out, ifInfo{in: iff, atom: atomOfTerm(t), site: sp, t: t})
		}
	}
	return out
}

// Node is a position in the spliced control-flow graph: a block, and the call site
// through which a helper block was entered (nil in the function's own blocks).
type Node struct {
	B    *ssa.BasicBlock
	Site *spliceSite
}

func nodesOf(bs []*ssa.BasicBlock) []Node {
	var out []Node
	for _, b := range bs {
		out = append(out, Node{b, nil})
	}
	return out
}

// enter: the node(s) control continues at when edge `from --slot-->` is taken in
// context site (applies jump threading on boolean-constant phis).
func enter(from *ssa.BasicBlock, slot int, site *spliceSite, cut map[Edge]bool) []Node {
	if cut[Edge{from, slot, site}] {
		return nil
	}
	s := from.Succs[slot]
	if th, ok := threadMap[s]; ok {
		if ts, ok := th[from]; ok {
			if cut[Edge{s, ts, site}] {
				return nil
			}
			return []Node{{s.Succs[ts], site}}
		}
	}
	return []Node{{s, site}}
}

// succNodes: successors of n in the spliced graph with the cut edges deleted.
func succNodes(n Node, cut map[Edge]bool) []Node {
	b := n.B
	if n.Site != nil {
		if slots, ok := n.Site.ret[b]; ok {
			var out []Node
			for _, s := range slots {
				out = append(out, enter(n.Site.B, s, nil, cut)...)
			}
			return out
		}
	} else if sp := spliceAt[b]; sp != nil && !cut[Edge{b, 0, nil}] && !cut[Edge{b, 1, nil}] {
		return []Node{{sp.H.Blocks[0], sp}}
	}
	var out []Node
	for i := range b.Succs {
		out = append(out, enter(b, i, n.Site, cut)...)
	}
	return out
}

// markHelperCounters renames the loop counters of a spliced helper (#i0 -> #^i0): loop
// depth is relative to the function a loop is written in, so a helper's outermost loop
// must not be mistaken for the caller's.
func markHelperCounters(t *Term) *Term {
	if t == nil {
		return nil
	}
	if t.Op == "ind" {
		return &Term{Op: "ind", S: "#^" + t.S[1:], T: t.T}
	}
	if len(t.A) == 0 {
		return t
	}
	nt := &Term{Op: t.Op, S: t.S, F: t.F, T: t.T, Fn: t.Fn}
	for _, a := range t.A {
		nt.A = append(nt.A, markHelperCounters(a))
	}
	return nt
}
