package main

import (
	"fmt"
	"go/types"
	"sort"
	"strings"

	"golang.org/x/tools/go/ssa"
)

// Effect is one primitive side effect (or store read) at a call site in module code.
type Effect struct {
	Kind   string // R, ITER, PAGE, W, D, LEDGER, EVENT, PANIC, ESCAPE, FORBIDDEN, EXTERNAL
	Region string // store region, "bank.SendCoins…", event type, …
	Key    *Term  // store key term (in terms of the enclosing function's parameters)
	Val    *Term  // value written / request passed
	In     ssa.Instruction
	Fn     *ssa.Function
	Chain  []string // call chain from the queried entry point (filled by closure)
	// Late: a raw-slot access whose key is a parameter of the enclosing (helper) function;
	// the region is resolved by closure() once the caller's argument is substituted
	Late  bool
	Recv  *Term
	Inner ssa.Instruction // own(): the real site inside a new helper (In is the caller's call)
	// Anchor (closure()): the call instruction in the queried function through which the
	// effect is reached (nil for the function's own direct effects)
	Anchor *ssa.Call
}

func (e Effect) String() string {
	s := e.Kind + " " + e.Region
	if e.Key != nil {
		s += " key=" + e.Key.String()
	}
	if e.Val != nil {
		s += " val=" + e.Val.String()
	}
	return s
}

// Sig is the position-independent identity of an effect: kind+region.
func (e Effect) Sig() string { return e.Kind + ":" + e.Region }

type callEdge struct {
	In     *ssa.Call
	Callee *ssa.Function
	Args   []*Term // argument terms in the caller's frame (index = callee param index)
	Mk     *ssa.MakeClosure // closure creation edge (In == nil)
}

type Summary struct {
	fn     *ssa.Function
	direct []Effect
	calls  []callEdge
	// dynamic calls inside module code that could not be resolved or classified
	unresolved []string
	// dynamic calls of a function value that depends on the parameters of a NEW helper:
	// resolved per caller when the effect closure substitutes the argument
	dyn []dynCall
}

type dynCall struct {
	In   *ssa.Call
	Fn   *Term   // the called value, in the enclosing function's frame
	Args []*Term // argument terms
}

var summaryCache = map[*ssa.Function]*Summary{}

const (
	pkgPrefixStore = "cosmossdk.io/store/prefix"
	pkgStoreTypes  = "cosmossdk.io/store/types"
	pkgCoreStore   = "cosmossdk.io/core/store"
	pkgSDK         = "github.com/cosmos/cosmos-sdk/types"
)

func isStoreType(T types.Type) bool {
	return isNamed(T, pkgPrefixStore, "Store") || isNamed(T, pkgStoreTypes, "KVStore") || isNamed(T, pkgCoreStore, "KVStore") ||
		isNamed(T, pkgStoreTypes, "CommitKVStore") || isNamed(T, pkgStoreTypes, "Iterator")
}

func isKVStoreType(T types.Type) bool {
	return isNamed(T, pkgPrefixStore, "Store") || isNamed(T, pkgStoreTypes, "KVStore") || isNamed(T, pkgCoreStore, "KVStore")
}

// adapterForm: runtime.KVStoreAdapter(k.storeService.OpenKVStore(ctx))
func isAdapterTerm(t *Term) bool {
	if t.Op != "call" || t.S != "runtime.KVStoreAdapter" || len(t.A) != 1 {
		return false
	}
	in := t.A[0]
	return in.Op == "invoke" && in.S == "OpenKVStore" && len(in.A) == 2 && in.A[0].String() == "k.storeService" && in.A[1].Op == "ctx"
}

func constBytes(t *Term) (string, bool) {
	if t.Op == "conv" && t.S == "[]byte" && len(t.A) == 1 && t.A[0].Op == "const" && strings.HasPrefix(t.A[0].S, `"`) {
		return strings.Trim(t.A[0].S, `"`), true
	}
	return "", false
}

// globalInit returns the term assigned to a package-level variable by its package
// initialiser (exactly one store).
func (p *Prog) globalInit(name string) *Term {
	for _, path := range modulePkgs {
		sp := p.SPkgs[path]
		initFn := sp.Func("init")
		if initFn == nil {
			continue
		}
		x := p.tx(initFn)
		var found *Term
		n := 0
		for _, b := range initFn.Blocks {
			for _, in := range b.Instrs {
				if st, ok := in.(*ssa.Store); ok {
					if g, ok := st.Addr.(*ssa.Global); ok && shortPkg(g.Pkg.Pkg.Path())+"."+g.Name() == name {
						found = x.Of(st.Val, st)
						n++
					}
				}
			}
		}
		if n == 1 {
			return found
		}
		if n > 1 {
			return unknown("global " + name + " assigned more than once in init")
		}
	}
	return nil
}

// regionOf resolves the store region addressed by receiver term recv and key term key.
func (p *Prog) regionOf(recv, key *Term) (string, bool) {
	if recv.Op == "call" && recv.S == "prefix.NewStore" && len(recv.A) == 2 && isAdapterTerm(recv.A[0]) {
		if s, ok := constBytes(recv.A[1]); ok {
			return s, true
		}
		return "", false
	}
	if isAdapterTerm(recv) {
		if key == nil {
			return "raw:*", true
		}
		if key.Op == "global" {
			if init := p.globalInit(key.S); init != nil {
				if s, ok := constBytes(init); ok {
					return "raw:" + s, true
				}
			}
		}
		if s, ok := constBytes(key); ok {
			return "raw:" + s, true
		}
		return "", false
	}
	return "", false
}

func (p *Prog) effects(fn *ssa.Function) *Summary {
	if s, ok := summaryCache[fn]; ok {
		return s
	}
	s := &Summary{fn: fn}
	summaryCache[fn] = s
	if fn.Blocks == nil {
		return s
	}
	x := p.tx(fn)
	add := func(e Effect) {
		e.Fn = fn
		s.direct = append(s.direct, e)
	}
	for _, b := range fn.Blocks {
		for _, in := range b.Instrs {
			switch in := in.(type) {
			case *ssa.Panic:
				add(Effect{Kind: "PANIC", Region: "panic", Val: x.Of(in.X, in), In: in})
			case *ssa.Go:
				add(Effect{Kind: "FORBIDDEN", Region: "go statement", In: in})
			case *ssa.Defer:
				p.classifyCall(x, s, in, &in.Call, add)
			case *ssa.Call:
				p.classifyCall(x, s, in, &in.Call, add)
			case *ssa.MakeClosure:
				if cf, ok := in.Fn.(*ssa.Function); ok {
					// closures run (at most) in the dynamic extent of their creator or of
					// the callee they are handed to; their effects count for the creator
					s.calls = append(s.calls, callEdge{In: nil, Callee: cf, Mk: in})
				}
			}
		}
	}
	// store values must not escape the recognised idioms
	for _, prm := range fn.Params {
		if !isKVStoreType(prm.Type()) {
			continue
		}
		if refs := prm.Referrers(); refs != nil {
			for _, r := range *refs {
				if why := p.storeUseOK(prm, r); why != "" {
					add(Effect{Kind: "ESCAPE", Region: why, In: r})
				}
			}
		}
	}
	for _, b := range fn.Blocks {
		for _, in := range b.Instrs {
			v, ok := in.(ssa.Value)
			if !ok || !isKVStoreType(v.Type()) {
				continue
			}
			if refs := v.Referrers(); refs != nil {
				for _, r := range *refs {
					if why := p.storeUseOK(v, r); why != "" {
						add(Effect{Kind: "ESCAPE", Region: why, In: r})
					}
				}
			}
		}
	}
	return s
}

// storeUseOK returns "" when instruction r uses store value v in a recognised way.
func (p *Prog) storeUseOK(v ssa.Value, r ssa.Instruction) string {
	switch r := r.(type) {
	case *ssa.Call:
		return p.storeCallUse(v, &r.Call)
	case *ssa.Defer:
		return p.storeCallUse(v, &r.Call)
	case *ssa.MakeInterface, *ssa.ChangeInterface:
		rv := r.(ssa.Value)
		if refs := rv.Referrers(); refs != nil {
			for _, rr := range *refs {
				if why := p.storeUseOK(rv, rr); why != "" {
					return why
				}
			}
		}
		return ""
	case *ssa.DebugRef:
		return ""
	case *ssa.Return:
		// a NEW straight-line accessor (`func (k Keeper) xStore(ctx) prefix.Store`) hands the
		// store to its callers, where the call is replaced by the returned term
		// (inlineHelper) and every use is judged by these same rules
		if fn := r.Parent(); p.newHelper(fn) && len(fn.Blocks) == 1 {
			return ""
		}
	}
	return fmt.Sprintf("store value used by %T", r)
}

func (p *Prog) storeCallUse(v ssa.Value, c *ssa.CallCommon) string {
	if c.IsInvoke() {
		if c.Value == v {
			switch c.Method.Name() {
			case "Get", "Has", "Set", "Delete", "Iterator", "ReverseIterator":
				return ""
			}
			return "store method " + c.Method.Name()
		}
		return "store passed to interface method " + c.Method.Name()
	}
	callee := c.StaticCallee()
	if callee == nil {
		return "store passed to dynamic call"
	}
	switch funcName(callee) {
	case "prefix.NewStore", "runtime.KVStoreAdapter", "query.Paginate", "query.FilteredPaginate":
		return ""
	case "(prefix.Store).Get", "(prefix.Store).Has", "(prefix.Store).Set", "(prefix.Store).Delete", "(prefix.Store).Iterator", "(prefix.Store).ReverseIterator":
		if len(c.Args) > 0 && c.Args[0] == v {
			return ""
		}
	}
	if p.newHelper(callee) {
		// handed to a new helper: the helper's use of its parameter is judged by these same
		// rules (effects() also walks store-typed parameters), and its accesses are resolved
		// with this argument when the effect closure substitutes it
		return ""
	}
	return "store passed to " + funcName(callee)
}

var storeMethods = map[string]string{"Get": "R", "Has": "R", "Set": "W", "Delete": "D", "Iterator": "ITER", "ReverseIterator": "ITER"}

func (p *Prog) classifyCall(x *TX, s *Summary, in ssa.Instruction, c *ssa.CallCommon, add func(Effect)) {
	arg := func(i int) *Term {
		if i < len(c.Args) {
			return x.Of(c.Args[i], in)
		}
		return nil
	}
	if c.IsInvoke() {
		recvT := c.Value.Type()
		m := c.Method.Name()
		recv := x.Of(c.Value, in)
		switch {
		case isKVStoreType(recvT):
			if kind, ok := storeMethods[m]; ok {
				var key *Term
				if kind != "ITER" {
					key = arg(0)
				}
				region, ok := p.regionOf(recv, key)
				late := false
				if !ok && (recv.hasParam() || (isAdapterTerm(recv) && key != nil && key.hasParam())) && p.newHelper(x.fn) {
					region, ok, late = "late:"+recv.String(), true, true
				}
				if !ok {
					add(Effect{Kind: "ESCAPE", Region: "unresolved store region for " + recv.String(), In: in})
					return
				}
				e := Effect{Kind: kind, Region: region, Key: key, In: in, Late: late, Recv: recv}
				if kind == "W" {
					e.Val = arg(1)
				}
				add(e)
				return
			}
			add(Effect{Kind: "ESCAPE", Region: "store method " + m, In: in})
		case recv.String() == "k.bank" || recv.String() == "k.fiattokenfactory":
			e := Effect{Kind: "LEDGER", Region: strings.TrimPrefix(recv.String(), "k.") + "." + m, In: in}
			if len(c.Args) > 1 {
				e.Val = arg(len(c.Args) - 1)
			}
			add(e)
		case isNamed(recvT, pkgSDK, "EventManagerI"):
			switch m {
			case "EmitTypedEvent", "EmitTypedEvents", "EmitEvent", "EmitEvents":
				et := "?"
				if len(c.Args) == 1 {
					if mi, ok := c.Args[0].(*ssa.MakeInterface); ok {
						et = typeStr(mi.X.Type())
					}
				}
				add(Effect{Kind: "EVENT", Region: et, Val: arg(0), In: in})
			default:
				// read-only event manager methods
			}
		case recv.String() == "k.storeService":
			// OpenKVStore: handled through the values it produces
		case recv.String() == "k.cdc" || recv.String() == "k.logger":
			// codec / logger: pure
		default:
			if isModuleIface(recvT) || p.moduleImplements(recvT) {
				s.unresolved = append(s.unresolved, fmt.Sprintf("invoke %s.%s at %s", recv, m, p.instrPos(in)))
			} else {
				p.noteExternalInvoke(x, s, in, c, add)
			}
		}
		return
	}
	if _, ok := c.Value.(*ssa.Builtin); ok {
		return
	}
	callee := c.StaticCallee()
	if callee == nil {
		// dynamic call of a function value inside module code
		if _, isClosure := c.Value.(*ssa.MakeClosure); !isClosure {
			ft := x.Of(c.Value, in)
			top := x.fn
			for top.Parent() != nil {
				top = top.Parent()
			}
			if call, ok := in.(*ssa.Call); ok && p.newHelper(top) && (ft.hasParam() || ft.hasFreeVar()) {
				dc := dynCall{In: call, Fn: ft}
				for i := range c.Args {
					dc.Args = append(dc.Args, arg(i))
				}
				s.dyn = append(s.dyn, dc)
				return
			}
			s.unresolved = append(s.unresolved, fmt.Sprintf("dynamic call of %s at %s", ft, p.instrPos(in)))
		}
		return
	}
	name := funcName(callee)
	// store primitives through the concrete prefix.Store
	if strings.HasPrefix(name, "(prefix.Store).") {
		m := callee.Name()
		if kind, ok := storeMethods[m]; ok {
			recv := arg(0)
			var key *Term
			if kind != "ITER" {
				key = arg(1)
			}
			region, ok := p.regionOf(recv, key)
			late := false
			if !ok && recv.hasParam() && p.newHelper(x.fn) {
				region, ok, late = "late:"+recv.String(), true, true
			}
			if !ok {
				add(Effect{Kind: "ESCAPE", Region: "unresolved store region for " + recv.String(), In: in})
				return
			}
			e := Effect{Kind: kind, Region: region, Key: key, In: in, Late: late, Recv: recv}
			if kind == "W" {
				e.Val = arg(2)
			}
			add(e)
			return
		}
		add(Effect{Kind: "ESCAPE", Region: "store method " + m, In: in})
		return
	}
	switch name {
	case "query.Paginate", "query.FilteredPaginate":
		recv := arg(0)
		region, ok := p.regionOf(recv, nil)
		late := false
		if !ok && recv.hasParam() && p.newHelper(x.fn) {
			region, ok, late = "late:"+recv.String(), true, true
		}
		if !ok {
			add(Effect{Kind: "ESCAPE", Region: "unresolved store region for " + recv.String(), In: in})
			return
		}
		add(Effect{Kind: "PAGE", Region: region, In: in, Late: late, Recv: recv})
		return
	case "(sdk.Context).KVStore", "(sdk.Context).MultiStore", "(sdk.Context).TransientStore", "(sdk.Context).WithMultiStore":
		add(Effect{Kind: "FORBIDDEN", Region: name, In: in})
		return
	}
	if p.inModuleCode(callee) {
		var args []*Term
		for i := range c.Args {
			args = append(args, arg(i))
		}
		ce := callEdge{Callee: callee, Args: args}
		if call, ok := in.(*ssa.Call); ok {
			ce.In = call
		}
		s.calls = append(s.calls, ce)
		return
	}
	if callee.Pkg != nil && p.isModulePkgPath(callee.Pkg.Pkg.Path()) {
		// generated code of the module (pb.go): pure data methods
		return
	}
	pk := ""
	if callee.Pkg != nil {
		pk = callee.Pkg.Pkg.Path()
	} else if callee.Object() != nil && callee.Object().Pkg() != nil {
		pk = callee.Object().Pkg().Path()
	}
	add(Effect{Kind: "EXTERNAL", Region: pk, Val: mk("func", name), In: in, Key: capabilityArg(c)})
}

// capabilityArg: an external callee can only touch chain state if it is handed a
// capability: a context, a store, the keeper, a codec-independent service or the event
// manager. Returns a marker term when some argument (or the receiver) is one.
func capabilityArg(c *ssa.CallCommon) *Term {
	isCap := func(T types.Type) bool {
		if isCtxType(T) || isKeeperType(T) || isKVStoreType(T) {
			return true
		}
		return isNamed(T, pkgCoreStore, "KVStoreService") || isNamed(T, pkgSDK, "EventManagerI") || isNamed(T, pkgSDK, "EventManager")
	}
	vals := append([]ssa.Value(nil), c.Args...)
	if c.IsInvoke() {
		vals = append(vals, c.Value)
	}
	for _, a := range vals {
		T := a.Type()
		if mi, ok := a.(*ssa.MakeInterface); ok {
			T = mi.X.Type()
		}
		if isCap(T) {
			return mk("const", "capability:"+typeStr(T))
		}
		if ptr, ok := T.(*types.Pointer); ok && isCap(ptr.Elem()) {
			return mk("const", "capability:"+typeStr(T))
		}
	}
	return nil
}

func (p *Prog) noteExternalInvoke(x *TX, s *Summary, in ssa.Instruction, c *ssa.CallCommon, add func(Effect)) {
	T := c.Value.Type()
	pk := ""
	if n, ok := T.(*types.Named); ok && n.Obj().Pkg() != nil {
		pk = n.Obj().Pkg().Path()
	}
	add(Effect{Kind: "EXTERNAL", Region: pk, Val: mk("func", "invoke "+typeStr(T)+"."+c.Method.Name()), In: in, Key: capabilityArg(c)})
}

// moduleImplements: could the dynamic type behind this interface be one the module declares?
// (An invoke on such an interface may run module code that no call edge shows.)
func (p *Prog) moduleImplements(T types.Type) bool {
	it, ok := T.Underlying().(*types.Interface)
	if !ok || it.NumMethods() == 0 {
		return false
	}
	if T.String() == "error" {
		return false // error values: what a module-declared error type's methods may do is the new-method rule's business
	}
	for _, path := range modulePkgs {
		sp := p.SPkgs[path]
		if sp == nil {
			continue
		}
		sc := sp.Pkg.Scope()
		for _, name := range sc.Names() {
			tn, ok := sc.Lookup(name).(*types.TypeName)
			if !ok || tn.IsAlias() {
				continue
			}
			if _, isIface := tn.Type().Underlying().(*types.Interface); isIface {
				continue
			}
			if types.Implements(tn.Type(), it) || types.Implements(types.NewPointer(tn.Type()), it) {
				return true
			}
		}
	}
	return false
}

func isModuleIface(T types.Type) bool {
	n, ok := T.(*types.Named)
	if !ok || n.Obj().Pkg() == nil {
		return false
	}
	return strings.HasPrefix(n.Obj().Pkg().Path(), modPath)
}

// ---------------------------------------------------------------------------
// transitive closure with parameter substitution

// substTerm rewrites parameter atoms of a callee-frame term by the caller's argument terms.
func substTerm(t *Term, env []*Term) *Term { return substTermFV(t, env, nil) }

// substTermFV additionally rewrites the free variables of a closure body (fv: "fv:name" ->
// the value bound when the closure was made).
func substTermFV(t *Term, env []*Term, fv map[string]*Term) *Term {
	if t == nil {
		return nil
	}
	switch t.Op {
	case "freevar":
		if b, ok := fv[t.S]; ok {
			return b
		}
		return t
	case "param":
		if env == nil {
			return t // only free variables are being rewritten
		}
		var i int
		fmt.Sscanf(t.S, "p%d", &i)
		if i < len(env) && env[i] != nil {
			return env[i]
		}
		return unknown("unbound " + t.S)
	case "const", "k", "ctx", "global", "none", "func", "builtin", "unknown", "map", "loop":
		return t
	}
	nt := &Term{Op: t.Op, S: t.S, F: t.F, T: t.T, Fn: t.Fn}
	for i, a := range t.A {
		if t.Op == "acc" && i > 0 {
			// the stores of a captured variable are written in the closures' own frames:
			// their parameters are not this frame's
			nt.A = append(nt.A, a)
			continue
		}
		nt.A = append(nt.A, substTermFV(a, env, fv))
	}
	if nt.Op == "dyncall" {
		if r := applyFuncTerm(nt.A[0], nt.A[1:]); r != nil {
			return r
		}
	}
	// substitution can disturb the canonical operand order of commutative forms
	if nt.Op == "bin" && len(nt.F) == 1 && nt.F[0] == "comm" && len(nt.A) == 2 {
		nt.A[0], nt.A[1] = commOrder(nt.A[0], nt.A[1])
	}
	if nt.Op == "phi" {
		return phiOf(nt.A)
	}
	if nt.Op == "cat" && len(nt.A) > 0 {
		// re-normalise: a substituted segment may itself be a concatenation / a width-exact temporary
		r := nt.A[0]
		if len(nt.A) == 1 {
			return catOf(r, &Term{Op: "buf", S: "0"})
		}
		for _, seg := range nt.A[1:] {
			r = catOf(r, seg)
		}
		return r
	}
	if nt.Op == "call" && commutative[nt.S] && len(nt.A) == 2 && nt.A[1].String() < nt.A[0].String() {
		nt.A[0], nt.A[1] = nt.A[1], nt.A[0]
	}
	if nt.Op == "field" {
		base := nt.A[0]
		if base.Op == "addr" {
			base = base.A[0]
		}
		if base.Op == "lit" {
			for i, fn := range base.F {
				if fn == nt.S {
					return base.A[i]
				}
			}
			if nt.T != nil {
				return zeroTerm(nt.T)
			}
			return &Term{Op: "const", S: "0"}
		}
	}
	return nt
}

// frame is the binding of a visited function's parameters (and, for a closure body, free
// variables) to terms of the root function's frame. identity: the root itself.
type frame struct {
	env      []*Term
	fv       map[string]*Term
	identity bool
	helper   bool // the visited function is a NEW helper: its loop counters are renamed
}

func (fr frame) sub(t *Term) *Term {
	if t == nil {
		return nil
	}
	if fr.helper {
		t = markHelperCounters(t)
	}
	if fr.identity {
		return t
	}
	return substTermFV(t, fr.env, fr.fv)
}

// resolvedFn: what a function-valued term denotes.
type resolvedFn struct {
	fn  *ssa.Function
	pre []*Term          // leading arguments (the receiver of a bound method value)
	fv  map[string]*Term // free-variable bindings of an anonymous closure
}

func (p *Prog) resolveFuncTerm(ft *Term) (resolvedFn, bool) {
	// a function-valued parameter captured by an inner closure travels as the address of
	// the (never re-assigned) variable that holds it
	for i := 0; ft != nil && i < 4; i++ {
		switch {
		case ft.Op == "deref" && len(ft.A) == 1, ft.Op == "addr" && len(ft.A) == 1:
			ft = ft.A[0]
		case ft.Op == "acc" && len(ft.A) == 1:
			ft = ft.A[0]
		}
	}
	if ft == nil || ft.Fn == nil {
		return resolvedFn{}, false
	}
	switch ft.Op {
	case "func":
		if ft.Fn.Blocks != nil {
			return resolvedFn{fn: ft.Fn}, true
		}
	case "closure":
		if strings.HasPrefix(ft.Fn.Synthetic, "bound method wrapper") {
			if obj, ok := ft.Fn.Object().(*types.Func); ok {
				if m := p.SSA.FuncValue(obj); m != nil && m.Blocks != nil {
					return resolvedFn{fn: m, pre: ft.A}, true
				}
			}
			return resolvedFn{}, false
		}
		if ft.Fn.Blocks != nil {
			fv := map[string]*Term{}
			for i, v := range ft.Fn.FreeVars {
				if i < len(ft.A) {
					fv["fv:"+v.Name()] = ft.A[i]
				}
			}
			return resolvedFn{fn: ft.Fn, fv: fv}, true
		}
	}
	return resolvedFn{}, false
}

// visitor callbacks of walkCalls
type walkVisitor struct {
	onlyNew bool // descend only into NEW helpers (and the functions they are handed)
	effect  func(e Effect, orig Effect, f *ssa.Function, fr frame, anchor *ssa.Call, chain []string)
	unres   func(what string, f *ssa.Function, anchor *ssa.Call, chain []string)
	call    func(callee *ssa.Function, site *ssa.Call, anchor *ssa.Call, f *ssa.Function) // every resolved call edge
}

// walkCalls traverses the module call graph from root, binding parameters to the root's
// terms and resolving calls of function-valued parameters of new helpers per call site.
func (p *Prog) walkCalls(root *ssa.Function, v walkVisitor) {
	onStack := map[*ssa.Function]bool{}
	var visit func(f *ssa.Function, fr frame, anchor *ssa.Call, chain []string, depth int)
	visit = func(f *ssa.Function, fr frame, anchor *ssa.Call, chain []string, depth int) {
		if depth > 12 || onStack[f] {
			if v.unres != nil {
				// a recursive (or very deep) activation is not followed: its effects with the inner
				// activation's arguments are not in the summary
				v.unres(fmt.Sprintf("recursive or too deep call of %s (inner activation not summarised)", funcName(f)), f, anchor, append(append([]string(nil), chain...), funcName(f)))
			}
			return
		}
		onStack[f] = true
		defer delete(onStack, f)
		s := p.effects(f)
		here := append(append([]string(nil), chain...), funcName(f))
		if v.effect != nil {
			for _, e := range s.direct {
				ne := e
				ne.Key, ne.Val = fr.sub(e.Key), fr.sub(e.Val)
				if ne.Late {
					ne.Recv = fr.sub(e.Recv)
					if region, ok := p.regionOf(ne.Recv, ne.Key); ok {
						ne.Region, ne.Late = region, false
					}
				}
				v.effect(ne, e, f, fr, anchor, here)
			}
		}
		if v.unres != nil {
			for _, u := range s.unresolved {
				v.unres(u, f, anchor, here)
			}
		}
		descend := func(callee *ssa.Function, nfr frame, site *ssa.Call) {
			an := anchor
			if an == nil {
				an = site
			}
			if v.call != nil {
				v.call(callee, site, an, f)
			}
			top := callee
			for top.Parent() != nil {
				top = top.Parent()
			}
			nfr.helper = p.newHelper(top)
			if v.onlyNew && !nfr.helper && callee.Parent() == nil {
				return
			}
			visit(callee, nfr, an, here, depth+1)
		}
		for _, ce := range s.calls {
			nfr := frame{identity: ce.Args == nil && fr.identity}
			if ce.Args != nil {
				nfr.env = make([]*Term, len(ce.Args))
				for i, a := range ce.Args {
					nfr.env[i] = fr.sub(a)
				}
			} else if ce.Mk != nil {
				// a closure made here: its free variables are this frame's values (its own
				// parameters stay symbolic)
				fx := p.tx(f)
				nfr.identity = false
				nfr.fv = map[string]*Term{}
				for i, fvar := range ce.Callee.FreeVars {
					if i < len(ce.Mk.Bindings) {
						nfr.fv["fv:"+fvar.Name()] = fr.sub(fx.Of(ce.Mk.Bindings[i], ce.Mk))
					}
				}
			}
			if v.onlyNew && !p.newHelper(ce.Callee) && ce.Callee.Parent() == nil {
				if v.call != nil && ce.In != nil {
					an := anchor
					if an == nil {
						an = ce.In
					}
					v.call(ce.Callee, ce.In, an, f)
				}
				continue
			}
			descend(ce.Callee, nfr, ce.In)
		}
		for _, dc := range s.dyn {
			ft := fr.sub(dc.Fn)
			rf, ok := p.resolveFuncTerm(ft)
			if !ok {
				if v.unres != nil {
					v.unres(fmt.Sprintf("dynamic call of %s at %s", ft, p.instrPos(dc.In)), f, anchor, here)
				}
				continue
			}
			nfr := frame{fv: rf.fv}
			nfr.env = append(nfr.env, rf.pre...)
			for _, a := range dc.Args {
				nfr.env = append(nfr.env, fr.sub(a))
			}
			if v.onlyNew && !p.newHelper(rf.fn) && rf.fn.Parent() == nil {
				// a known function handed to a new helper and called there: a call edge of the root
				if v.call != nil {
					an := anchor
					if an == nil {
						an = dc.In
					}
					v.call(rf.fn, dc.In, an, f)
				}
				continue
			}
			descend(rf.fn, nfr, dc.In)
		}
	}
	visit(root, frame{identity: true}, nil, nil, 0)
}

// Closure returns all effects reachable from fn through module code, with key
// and value terms rewritten into fn's own frame.
func (p *Prog) closure(fn *ssa.Function) []Effect {
	var out []Effect
	p.walkCalls(fn, walkVisitor{
		effect: func(ne, e Effect, f *ssa.Function, fr frame, anchor *ssa.Call, chain []string) {
			if ne.Late {
				ks := ""
				if ne.Key != nil {
					ks = " key " + ne.Key.String()
				}
				ne = Effect{Kind: "ESCAPE", Region: "unresolved store region for " + ne.Recv.String() + ks, In: e.In, Fn: e.Fn}
			}
			ne.Chain = chain
			ne.Anchor = anchor
			out = append(out, ne)
		},
		unres: func(u string, f *ssa.Function, anchor *ssa.Call, chain []string) {
			out = append(out, Effect{Kind: "UNRESOLVED", Region: u, Fn: f, Chain: chain, Anchor: anchor})
		},
	})
	return out
}

// own returns the effects a KNOWN function performs itself: its direct effects plus those
// of the NEW helpers it calls (transitively through new helpers, and through the functions
// those helpers are handed as values), rewritten into its frame and anchored at its own
// call instruction (Inner keeps the real site). A new helper has no effects of its own in
// this sense: they belong to whoever calls it.
func (p *Prog) own(fn *ssa.Function) []Effect {
	if p.newHelper(fn) && p.attributed()[fn] {
		return nil
	}
	// (a new function that no known function reaches — a new hook, a new exported method
	// called only from outside — answers for its own effects)
	return p.ownInner(fn)
}

var attributedSet map[*ssa.Function]bool

// attributed: the new helpers (and functions handed to them) that some KNOWN function
// reaches through new helpers only; their effects are reported by own() of that function.
func (p *Prog) attributed() map[*ssa.Function]bool {
	if attributedSet != nil {
		return attributedSet
	}
	attributedSet = map[*ssa.Function]bool{}
	for _, fn := range p.Funcs {
		top := fn
		for top.Parent() != nil {
			top = top.Parent()
		}
		if p.newHelper(top) {
			continue
		}
		p.walkCalls(fn, walkVisitor{
			onlyNew: true,
			call: func(callee *ssa.Function, site, anchor *ssa.Call, f *ssa.Function) {
				if p.newHelper(callee) {
					attributedSet[callee] = true
				}
			},
		})
	}
	return attributedSet
}

// ownInner: own() without the "a new helper owns nothing" convention (for rules that
// judge a new helper in its own right).
func (p *Prog) ownInner(fn *ssa.Function) []Effect {
	var out []Effect
	p.walkCalls(fn, walkVisitor{
		onlyNew: true,
		effect: func(ne, e Effect, f *ssa.Function, fr frame, anchor *ssa.Call, chain []string) {
			if f == fn {
				out = append(out, e)
				return
			}
			if f.Parent() != nil && anchor == nil {
				return // closures made by fn itself: not fn's own straight-line effects
			}
			if ne.Late && !p.newHelper(fn) {
				ne.Kind, ne.Region = "ESCAPE", "unresolved store region for "+ne.Recv.String()
			}
			ne.Inner = e.In
			ne.In = anchor
			ne.Fn = fn
			out = append(out, ne)
		},
	})
	return out
}

// callersOf reports module functions with a call to target. A call made by a NEW helper
// (or by a function value handed to one) on behalf of a known function counts as that
// function's call, at its own call of the helper — unless target is itself a new helper.
func (p *Prog) callersOf(target *ssa.Function) map[*ssa.Function][]*ssa.Call {
	out := map[*ssa.Function][]*ssa.Call{}
	if p.newHelper(target) {
		for _, fn := range p.Funcs {
			for _, ce := range p.effects(fn).calls {
				if ce.Callee == target && ce.In != nil {
					out[fn] = append(out[fn], ce.In)
				}
			}
		}
		return out
	}
	for _, fn := range p.Funcs {
		top := fn
		for top.Parent() != nil {
			top = top.Parent()
		}
		if p.newHelper(top) {
			continue
		}
		for _, lc := range p.liftedCalls(fn) {
			if lc.callee == target {
				out[fn] = append(out[fn], lc.anchor)
			}
		}
	}
	return out
}

// rawCallersOf: the functions (known or new) that contain a static call of target, with
// the call instructions themselves.
func (p *Prog) rawCallersOf(target *ssa.Function) map[*ssa.Function][]*ssa.Call {
	out := map[*ssa.Function][]*ssa.Call{}
	for _, fn := range p.Funcs {
		for _, ce := range p.effects(fn).calls {
			if ce.Callee == target && ce.In != nil {
				out[fn] = append(out[fn], ce.In)
			}
		}
	}
	return out
}

type liftedCall struct {
	callee *ssa.Function
	anchor *ssa.Call
}

var liftedCache = map[*ssa.Function][]liftedCall{}

// liftedCalls: the calls fn makes itself or through new helpers.
func (p *Prog) liftedCalls(fn *ssa.Function) []liftedCall {
	if lc, ok := liftedCache[fn]; ok {
		return lc
	}
	var out []liftedCall
	p.walkCalls(fn, walkVisitor{
		onlyNew: true,
		call: func(callee *ssa.Function, site, anchor *ssa.Call, f *ssa.Function) {
			if anchor != nil {
				out = append(out, liftedCall{callee, anchor})
			}
		},
	})
	liftedCache[fn] = out
	return out
}

// effectSet summarises a closure as a sorted set of "KIND:region" strings for the given kinds.
func effectSet(effs []Effect, kinds ...string) []string {
	want := map[string]bool{}
	for _, k := range kinds {
		want[k] = true
	}
	set := map[string]bool{}
	for _, e := range effs {
		if want[e.Kind] {
			set[e.Sig()] = true
		}
	}
	var out []string
	for s := range set {
		out = append(out, s)
	}
	sort.Strings(out)
	return out
}

// effectSitesIn lists the instructions in fn itself at which an effect of one of
// the given kinds happens, either directly or through a call to a module function.
func (p *Prog) effectSitesIn(fn *ssa.Function, kinds ...string) []ssa.Instruction {
	want := map[string]bool{}
	for _, k := range kinds {
		want[k] = true
	}
	var out []ssa.Instruction
	s := p.effects(fn)
	for _, e := range s.direct {
		if want[e.Kind] && e.In != nil {
			out = append(out, e.In)
		}
	}
	for _, ce := range s.calls {
		if ce.In == nil {
			continue
		}
		for _, e := range p.closure(ce.Callee) {
			if want[e.Kind] {
				out = append(out, ce.In)
				break
			}
		}
	}
	return out
}

// callersOf returns the module functions with a static call (or closure
// creation) targeting fn, with the call instructions.
// funcValueEscapes reports module-code sites where target is used as a value
// (stored, passed, bound) rather than called.
func (p *Prog) funcValueUses(target *ssa.Function) []string {
	var out []string
	for _, fn := range p.Funcs {
		for _, b := range fn.Blocks {
			for _, in := range b.Instrs {
				for _, op := range in.Operands(nil) {
					if *op != ssa.Value(target) {
						continue
					}
					if c, ok := in.(ssa.CallInstruction); ok && c.Common().Value == ssa.Value(target) {
						continue
					}
					out = append(out, p.instrPos(in))
				}
			}
		}
	}
	return out
}
