package main

import (
	"fmt"
	"strings"

	"golang.org/x/tools/go/ssa"
)

// abbreviations used for ReceiveMessage (applied in order)
// abRM abbreviates calls whose ARGUMENTS are judged by separate obligations (parse input,
// verifier arguments, mint request, mint event) with a balanced wildcard "§", so that a
// property's guards do not depend on values that are another property's business.
var abRM = [][2]string{
	{"MP", "(*types.Message).Parse(§)"},
	{"M", "MP#0"},
	{"BP", "(*types.BurnMessage).Parse(§)"},
	{"B", "BP#0"},
	{"N", "types.Nonce{SourceDomain:M.SourceDomain,Nonce:M.Nonce}"},
	{"PAIR", "k.GetTokenPair(ctx,M.SourceDomain,B.BurnToken)"},
	{"TM", "k.GetRemoteTokenMessenger(ctx,M.SourceDomain)"},
	{"PFX", "(*sdk.Config).GetBech32AccountAddrPrefix(sdk.GetConfig())"},
	{"VAS", "keeper.VerifyAttestationSignatures(§)"},
	{"ENC", "bech32.ConvertAndEncode(PFX,M.DestinationCaller[12:])"},
	{"RCPT", "sdk.Bech32ifyAddressBytes(§)"},
	{"MODADDR", "(sdk.AccAddress).String(types.ModuleAddress)"},
	{"DENOM", "strings.ToLower(PAIR#0.LocalToken)"},
	{"MINT", "k.fiattokenfactory.Mint(§)"},
	{"EMITMINT", "(sdk.Context).EventManager(ctx).EmitTypedEvent(&types.MintAndWithdraw{§})"},
}

// abRMx: the exact provenance terms (used by C04, whose subject is exactly these values)
var abRMx = [][2]string{
	{"MP", "(*types.Message).Parse(&types.Message{},p2.Message)"},
	{"M", "MP#0"},
	{"BP", "(*types.BurnMessage).Parse(&types.BurnMessage{},M.MessageBody)"},
	{"B", "BP#0"},
	{"N", "types.Nonce{SourceDomain:M.SourceDomain,Nonce:M.Nonce}"},
	{"PAIR", "k.GetTokenPair(ctx,M.SourceDomain,B.BurnToken)"},
	{"TM", "k.GetRemoteTokenMessenger(ctx,M.SourceDomain)"},
	{"PFX", "(*sdk.Config).GetBech32AccountAddrPrefix(sdk.GetConfig())"},
	{"RCPT", "sdk.Bech32ifyAddressBytes(PFX,B.MintRecipient[12:])"},
	{"MODADDR", "(sdk.AccAddress).String(types.ModuleAddress)"},
	{"DENOM", "strings.ToLower(PAIR#0.LocalToken)"},
}

// lenNorm applies E6 length facts: fields produced by the Parse functions have
// the fixed lengths of the wire layout (checked by C16), so x[12:32] == x[12:].
func lenNorm(s string) string {
	for _, f := range []string{"DestinationCaller", "MintRecipient", "Sender", "Recipient", "BurnToken", "MessageSender"} {
		s = strings.ReplaceAll(s, "#0."+f+"[12:32]", "#0."+f+"[12:]")
	}
	return s
}

func rmCtx(p *Prog, r *Report) *FC { return rmCtxWith(p, r, abRM) }

func rmCtxWith(p *Prog, r *Report, ab [][2]string) *FC {
	c := p.fc(r, handlerFn(p, "ReceiveMessage"), "ReceiveMessage", nil)
	if c == nil {
		return nil
	}
	// rebuild with length normalisation folded into the abbreviation pass
	c.ab = ab
	c.ifs = nil
	for _, ii := range p.ifs(c.fn) {
		ii.atom.Key = c.sh(lenNorm(ii.atom.Key))
		c.ifs = append(c.ifs, ii)
	}
	return c
}

func (c *FC) shn(s string) string { return c.sh(lenNorm(s)) }

// parse contracts (callee contracts used by callers: error nil => length fact)
func parseContracts(p *Prog, r *Report) {
	if c := p.fc(r, p.Func("types.*Message.Parse"), "Message.Parse", nil); c != nil {
		g := []Atom{A("!(len(p1) < 116)")}
		c.requireCut("contract", "nil-error-implies-len>=116", g, c.successReturns())
		c.requireFailArm("contract", "nil-error-implies-len>=116", g, false)
		c.exact("contract-exact", []Atom{A("(len(p1) < 116)")})
		for _, ret := range allReturns(c.fn) {
			if p.exitKind(c.x, ret) != "error" {
				c.teq("contract", "returns-receiver", c.term(ret.Results[0], ret), "p0", p.instrPos(ret))
			}
		}
	}
	if c := p.fc(r, p.Func("types.*BurnMessage.Parse"), "BurnMessage.Parse", nil); c != nil {
		rejects := c.requireEqual("contract", "nil-error-implies-len==132", "len(p1)", 132, c.successReturns())
		c.exact("contract-exact", rejects)
		for _, ret := range allReturns(c.fn) {
			if p.exitKind(c.x, ret) != "error" {
				c.teq("contract", "returns-receiver", c.term(ret.Results[0], ret), "p0", p.instrPos(ret))
			}
		}
	}
}

func allReturns(fn *ssa.Function) []*ssa.Return {
	var out []*ssa.Return
	for _, b := range fn.Blocks {
		for _, in := range b.Instrs {
			if ret, ok := in.(*ssa.Return); ok {
				out = append(out, ret)
			}
		}
	}
	return out
}

// zero32Global: the package-level all-zero 32-byte array used by the caller check.
func zero32Global(p *Prog, r *Report) {
	// (a package-level all-zero buffer that is never written is resolved to buf(N){} by the term
	// extractor; a zero-caller comparison against anything else shows up as a different atom)
	pm := p.globalInit("types.PaddedModuleAddress")
	r.check(pm != nil && pm.String() == "buf(32){}", "T-eq", "T-eq/types.PaddedModuleAddress/alloc", "", "PaddedModuleAddress = make([]byte,32)",
		fmt.Sprintf("PaddedModuleAddress initialiser is %v", pm))
	// init() copies the module address into [12:]
	found := false
	for _, fn := range p.Funcs {
		if fn.Pkg == nil || fn.Pkg.Pkg.Path() != modulePkgs[0] || !strings.HasPrefix(fn.Name(), "init#") {
			continue
		}
		x := p.tx(fn)
		for _, b := range fn.Blocks {
			for _, in := range b.Instrs {
				if call, ok := in.(*ssa.Call); ok {
					if t := x.Of(call, call).String(); t == "copy(types.PaddedModuleAddress[12:],types.ModuleAddress)" || t == "copy(types.PaddedModuleAddress[12:32],types.ModuleAddress)" {
						found = true
					}
				}
			}
		}
	}
	r.check(found, "T-eq", "T-eq/types.PaddedModuleAddress/fill", "", "init copies ModuleAddress into PaddedModuleAddress[12:]", "PaddedModuleAddress is no longer ModuleAddress left-padded to 32 bytes")
	ma := p.globalInit("types.ModuleAddress")
	r.check(ma != nil && ma.String() == `auth/types.NewModuleAddress("cctp")`, "T-eq", "T-eq/types.ModuleAddress", "", "ModuleAddress = NewModuleAddress(\"cctp\")",
		fmt.Sprintf("ModuleAddress initialiser is %v", ma))
}

// moduleBranchStart: the successor block taken when the message is addressed to the module.
func moduleBranchStart(c *FC) *ssa.BasicBlock {
	mints := c.calls("k.fiattokenfactory.Mint")
	var best *ssa.BasicBlock
	for _, ii := range c.ifs {
		if ii.atom.Key != "bytes.Equal(M.Recipient,types.PaddedModuleAddress)" {
			continue
		}
		succ := ii.in.Block().Succs[0]
		if !ii.atom.Pol {
			succ = ii.in.Block().Succs[1]
		}
		// the recipient test that opens the mint branch: its module-side successor dominates the mint
		// (a mint made inside a new helper is represented by fn's call of that helper)
		var mintBlock *ssa.BasicBlock
		if len(mints) == 1 {
			mintBlock = c.siteInFn(mints[0]).Block()
		}
		if len(mints) == 1 && (succ == mintBlock || succ.Dominates(mintBlock)) {
			if best == nil || best.Dominates(succ) {
				best = succ
			}
		} else if best == nil && len(mints) != 1 {
			best = succ
		}
	}
	return best
}

// ---------------------------------------------------------------------------
// C03

func init() { register("C03", "other", runC03) }

func runC03(p *Prog, r *Report, tier string) {
	r.Rule = "acceptance-condition table of ReceiveMessage: G-cut per atom over every effect and success return in its scope, G-fail, G-exact; parse contracts"
	r.Explanation = "Decided: in ReceiveMessage every effect site (nonce mark, mint, both events) and the only success-capable return are unreachable unless, on the way: the receive pause is off; attesters are present, the threshold exists and the verifier returned nil; " +
		"the header parse returned nil (contract: only when len >= 116); destination domain == 4; the destination caller is 32 zero bytes or its bech32 encoding of bytes [12:] equals msg.From; version == 0; the nonce is unused; " +
		"and, after the branch on recipient == module address: mint pause off, body parse nil (contract: len == 132), body version == 0, token pair found for (source domain, burn token), messenger found for the source domain and equal to the sender, bech32 of the mint recipient ok, Mint returned nil, mint event emitted without error. " +
		"Each fail arm reaches only error returns and no effect; there is no rejection that is not in this table (so nothing documented as accepted is refused by an extra check). " +
		"Not decided: the run-time truth of the conditions, Mint's own preconditions, and that the SDK discards the nonce mark of a receive that fails later (C14 decides the error return)."
	r.Assumptions = []string{"go/ssa faithfully represents the module code", "VerifyAttestationSignatures returns nil only for valid attestations (C01)", "cosmos-sdk discards the state branch of a failed message"}
	r.Trusted = r.Assumptions

	parseContracts(p, r)
	zero32Global(p, r)
	flagGetterContract(p, r, flagSR)
	flagGetterContract(p, r, flagBM)
	foundGetterContract(p, r, "GetTokenPair", "TokenPair/value/", "types.TokenPairKey(p2,p3)", "types.TokenPair{}")
	foundGetterContract(p, r, "GetRemoteTokenMessenger", "RemoteTokenMessenger/value/", "types.RemoteTokenMessengerKey(p2)", "types.RemoteTokenMessenger{}")

	c := rmCtx(p, r)
	if c == nil {
		return
	}
	all := append(c.effectSites(), c.successReturns()...)
	r.Extra["rm_effect_sites"] = len(c.effectSites())
	ctxDiscipline(p, r, txRoots(p, "ReceiveMessage"))
	r.floor("ReceiveMessage-effect-sites", len(c.effectSites()), 2)

	type row struct {
		name  string
		guard []Atom
	}
	global := []row{
		{"receive-not-paused", notPaused(flagSR)},
		{"attesters-present", []Atom{A("!(0 == len(k.GetAllAttesters(ctx)))")}},
		{"threshold-found", []Atom{A("k.GetSignatureThreshold(ctx)#1")}},
		{"attestation-valid", []Atom{A("(VAS == nil)")}},
		{"header-parsed", []Atom{A("(MP#1 == nil)")}},
		{"destination-domain==4", []Atom{A("(M.DestinationDomain == 4)")}},
		{"caller-zero-or-submitter", []Atom{A("bytes.Equal(M.DestinationCaller,buf(32){})"), A("(ENC#0 == p2.From)")}},
		{"caller-zero-or-encodable", []Atom{A("bytes.Equal(M.DestinationCaller,buf(32){})"), A("(ENC#1 == nil)")}},
		{"version==0", []Atom{A("(M.Version == 0)")}},
		{"nonce-unused", []Atom{A("!k.GetUsedNonce(ctx,N)")}},
	}
	var rejects []Atom
	neg := func(a Atom) Atom { return Atom{Key: a.Key, Pol: !a.Pol} }
	for _, g := range global {
		c.requireCut("G-cut", g.name, g.guard, all)
		c.requireFailArm("G-fail", g.name, g.guard, false)
	}
	// documented rejections (reject-edge atoms)
	rejects = append(rejects,
		A("k.GetSendingAndReceivingMessagesPaused(ctx)#0.Paused"), A("k.GetSendingAndReceivingMessagesPaused(ctx)#1"),
		A("(0 == len(k.GetAllAttesters(ctx)))"), A("!k.GetSignatureThreshold(ctx)#1"), A("!(VAS == nil)"), A("!(MP#1 == nil)"),
		A("!(M.DestinationDomain == 4)"), A("!(ENC#1 == nil)"), A("!(ENC#0 == p2.From)"), A("!(M.Version == 0)"), A("k.GetUsedNonce(ctx,N)"))

	start := moduleBranchStart(c)
	if start == nil {
		r.fail("G-cut", "G-cut/ReceiveMessage/module-branch", c.pos(), "no branch on bytes.Equal(M.Recipient, PaddedModuleAddress) found")
	} else {
		mint := c.calls("k.fiattokenfactory.Mint")
		scope := append(c.instrs(mint), c.successReturns()...)
		module := []row{
			{"mint-not-paused", notPaused(flagBM)},
			{"body-parsed", []Atom{A("(BP#1 == nil)")}},
			{"body-version==0", []Atom{A("(B.Version == 0)")}},
			{"token-pair-found", []Atom{A("PAIR#1")}},
			{"messenger-found", []Atom{A("TM#1")}},
			{"sender-is-messenger", []Atom{A("bytes.Equal(M.Sender,TM#0.Address)")}},
			{"mint-recipient-encodable", []Atom{A("(nil == RCPT#1)")}},
		}
		for _, g := range module {
			c.requireCutFrom("G-cut", "module/"+g.name, start, g.guard, scope)
			c.requireFailArm("G-fail", "module/"+g.name, g.guard, false)
			for _, a := range g.guard {
				rejects = append(rejects, neg(a))
			}
		}
		// rejects for the pause conjunction are the positive atoms
		rejects = append(rejects, A("k.GetBurningAndMintingPaused(ctx)#0.Paused"), A("k.GetBurningAndMintingPaused(ctx)#1"))
		// after the mint: success only if Mint and the mint event returned nil
		post := []row{
			{"mint-succeeded", []Atom{A("(MINT#1 == nil)")}},
			{"mint-event-emitted", []Atom{A("(EMITMINT == nil)")}},
		}
		for _, g := range post {
			c.requireCutFrom("G-cut", "module/"+g.name, start, g.guard, c.successReturns())
			for _, a := range g.guard {
				rejects = append(rejects, neg(a))
			}
		}
		// the mint is in the module branch only
		c.requireCut("G-cut", "mint-only-for-module-recipient", []Atom{A("bytes.Equal(M.Recipient,types.PaddedModuleAddress)")}, c.instrs(mint))
	}
	c.exact("G-exact", rejects)
	// exactly one success-capable return
	r.check(len(c.successReturns()) == 1, "G-exact", "G-exact/ReceiveMessage/single-success-exit", c.pos(), "one success-capable return",
		fmt.Sprintf("%d success-capable returns", len(c.successReturns())))
	// "nonce unused" means "never successfully received": every success path marks the nonce it tested
	if set := c.oneCall("G-mpt", "k.SetUsedNonce"); set != nil {
		c.teq("T-eq", "marked-nonce", c.shn(c.argTerms(set)[1].String()), "N", p.instrPos(set))
		c.mustPass("G-mpt", "every-success-marks-the-nonce", []ssa.Instruction{set}, c.successReturns())
	}
	// what is verified is what is parsed
	if vas := c.oneCall("T-eq", "keeper.VerifyAttestationSignatures"); vas != nil {
		args := c.args(vas)
		c.teq("T-eq", "verified-bytes", args[0], "p2.Message", p.instrPos(vas))
		c.teq("T-eq", "attestation", args[1], "p2.Attestation", p.instrPos(vas))
		c.teq("T-eq", "attesters", args[2], "k.GetAllAttesters(ctx)", p.instrPos(vas))
		c.teq("T-eq", "threshold", args[3], "k.GetSignatureThreshold(ctx)#0.Amount", p.instrPos(vas))
	}
	if mp := c.oneCall("T-eq", "(*types.Message).Parse"); mp != nil {
		c.teq("T-eq", "parsed-bytes", c.args(mp)[1], "p2.Message", p.instrPos(mp))
	}
	if bp := c.oneCall("T-eq", "(*types.BurnMessage).Parse"); bp != nil {
		c.teq("T-eq", "parsed-body", c.args(bp)[1], "M.MessageBody", p.instrPos(bp))
	}
}

// ---------------------------------------------------------------------------
// C02

func init() { register("C02", "other", runC02) }

const usedNonceRegion = "UsedNonce/value/"

func runC02(p *Prog, r *Report, tier string) {
	r.Rule = "G-cut (lookup) + G-mpt (mark) with one nonce term; F-writers/no-deleter of the used-nonce region; K-agree of the fixed-width key; query wiring"
	r.Explanation = "Decided: ReceiveMessage builds one Nonce{SourceDomain, Nonce} from the parsed (attested) bytes; every effect and the success return lie behind `GetUsedNonce(N) == false`, and the success return lies behind SetUsedNonce(N) with the same N (so no success path skips the mark, whatever the recipient); " +
		"the used-nonce region has exactly one writer (SetUsedNonce, Set only), no deleter anywhere in the module, and SetUsedNonce is called only by ReceiveMessage and InitGenesis; the key is BE32(domain) || BE64(nonce) || '/', both parameters used with fixed widths 4 and 8 (injective over uint32 x uint64); " +
		"getter, setter, genesis validation and the query all pass (nonce, domain) in that order. " +
		"Argument for histories (not mechanised): the region only grows; a success implies the key was absent before and present after; distinct pairs have distinct keys. Not decided: the SDK discarding failed branches; store semantics."
	r.Assumptions = []string{"go/ssa faithfully represents the module code", "cosmos-sdk discards the state branch of a failed message", "KV store Get returns non-nil for a key that was Set with a non-empty value"}
	r.Trusted = r.Assumptions

	c := rmCtx(p, r)
	if c == nil {
		return
	}
	get := c.oneCall("T-eq", "k.GetUsedNonce")
	ctxDiscipline(p, r, txRoots(p, "ReceiveMessage"))
	set := c.oneCall("T-eq", "k.SetUsedNonce")
	if get != nil && set != nil {
		c.teq("T-eq", "lookup-nonce", c.shn(c.argTerms(get)[1].String()), "N", p.instrPos(get))
		c.teq("T-eq", "marked-nonce", c.shn(c.argTerms(set)[1].String()), "N", p.instrPos(set))
		if mp := c.oneCall("T-eq", "(*types.Message).Parse"); mp != nil {
			c.teq("T-eq", "nonce-from-attested-bytes", c.args(mp)[1], "p2.Message", p.instrPos(mp))
		}
		all := append(c.effectSites(), c.successReturns()...)
		c.requireCut("G-cut", "nonce-unused", []Atom{A("!k.GetUsedNonce(ctx,N)")}, all)
		c.requireFailArm("G-fail", "nonce-unused", []Atom{A("!k.GetUsedNonce(ctx,N)")}, false)
		c.mustPass("G-mpt", "SetUsedNonce", []ssa.Instruction{set}, c.successReturns())
		r.check(!c.onCycle(set), "G-once", "G-once/ReceiveMessage/SetUsedNonce", p.instrPos(set), "single mark site, not in a loop", "SetUsedNonce is inside a loop")
		// mark before mint
		mint := c.calls("k.fiattokenfactory.Mint")
		c.mustPass("G-mpt", "mark-before-mint", []ssa.Instruction{set}, c.instrs(mint))
	}
	r.check(len(c.successReturns()) == 1, "G-exact", "G-exact/ReceiveMessage/single-success-exit", c.pos(), "one success-capable return", fmt.Sprintf("%d success-capable returns", len(c.successReturns())))

	const S = "(keeper.Keeper)."
	writersRule(p, r, usedNonceRegion, []string{"W:" + S + "SetUsedNonce"}, map[string][]string{
		"W:" + S + "SetUsedNonce": {"(keeper.msgServer).ReceiveMessage", "cctp.InitGenesis"}})
	// no deleter program-wide (redundant with the writers rule; kept as an explicit zero-count rule)
	nDel := 0
	for _, fn := range p.Funcs {
		for _, e := range p.own(fn) {
			if e.Kind == "D" && e.Region == usedNonceRegion {
				nDel++
				r.fail("F-neg", "F-neg/used-nonce-deleter/"+funcName(fn), p.instrPos(e.In), "a used nonce can be deleted by "+funcName(fn))
			}
		}
	}
	r.check(nDel == 0, "F-neg", "F-neg/used-nonce-deleter", "", "no Delete on the used-nonce region anywhere in module code", "deleter exists")

	// K-agree and key shape
	kAgree(p, r, "used-nonces", usedNonceRegion, map[string]string{
		"GetUsedNonce": "R types.UsedNonceKey(p2.Nonce,p2.SourceDomain)",
		"SetUsedNonce": "W types.UsedNonceKey(p2.Nonce,p2.SourceDomain)",
	})
	if kc := p.fc(r, p.Func("types.UsedNonceKey"), "UsedNonceKey", nil); kc != nil {
		for _, ret := range allReturns(kc.fn) {
			kc.teq("K-agree", "key-shape", kc.term(ret.Results[0], ret), `cat(be32(p1),be64(p0),[]byte("/"))`, p.instrPos(ret))
		}
	}
	if sc := p.fc(r, p.Func("keeper.Keeper.SetUsedNonce"), "SetUsedNonce", nil); sc != nil {
		for _, e := range p.own(sc.fn) {
			if e.Kind == "W" {
				sc.teq("T-eq", "stored-value", e.Val.String(), "k.cdc.MustMarshal(&p2)", p.instrPos(e.In))
			}
		}
	}
	if gc := p.fc(r, p.Func("keeper.Keeper.GetUsedNonce"), "GetUsedNonce", nil); gc != nil {
		want := "!(" + "(prefix.Store).Get(" + prefixStore(usedNonceRegion) + ",types.UsedNonceKey(p2.Nonce,p2.SourceDomain)) == nil)"
		for _, ret := range allReturns(gc.fn) {
			a := condAtom(gc.x, ret.Results[0], ret)
			gc.teq("getter-contract", "used-iff-present", a.String(), want, p.instrPos(ret))
		}
	}
	// genesis validation keys the duplicate check with the same function and order
	if vc := p.fc(r, p.Func("types.GenesisState.Validate"), "Validate", nil); vc != nil {
		n := 0
		for _, call := range vc.calls("types.UsedNonceKey") {
			n++
			args := vc.args(call)
			// (the loop over the list may live in a new helper: counter #^i0)
			vc.teq("K-agree", "validate-key-order", strings.ReplaceAll(strings.Join(args, ","), "#^i0", "#i0"), "p0.UsedNoncesList[#i0].Nonce,p0.UsedNoncesList[#i0].SourceDomain", p.instrPos(call))
		}
		r.check(n == 1, "K-agree", "K-agree/used-nonces/Validate-site", vc.pos(), "Validate derives the used-nonce key once", fmt.Sprintf("%d UsedNonceKey calls in Validate", n))
	}
	// query wiring
	if qc := p.fc(r, p.Func("keeper.Keeper.UsedNonce"), "query.UsedNonce", nil); qc != nil {
		if call := qc.oneCall("T-eq", "k.GetUsedNonce"); call != nil {
			qc.teq("T-eq", "query-key", qc.args(call)[1], "types.Nonce{SourceDomain:p2.SourceDomain,Nonce:p2.Nonce}", p.instrPos(call))
			g := []Atom{A("k.GetUsedNonce(ctx,types.Nonce{SourceDomain:p2.SourceDomain,Nonce:p2.Nonce})")}
			qc.requireCut("G-cut", "found-iff-used", g, qc.successReturns())
			qc.requireFailArm("G-fail", "found-iff-used", g, false)
		}
	}
	if qc := p.fc(r, p.Func("keeper.Keeper.UsedNonces"), "query.UsedNonces", nil); qc != nil {
		var pages []string
		for _, e := range p.closure(qc.fn) {
			if e.Kind == "PAGE" || e.Kind == "R" || e.Kind == "ITER" {
				pages = append(pages, e.Kind+" "+e.Region)
			}
		}
		r.check(len(pages) == 1 && pages[0] == "PAGE "+usedNonceRegion, "T-eq", "T-eq/query.UsedNonces/prefix", qc.pos(), "paginates the used-nonce prefix", fmt.Sprintf("reads %v", pages))
	}
}

// ---------------------------------------------------------------------------
// C04

func init() { register("C04", "other", runC04) }

func runC04(p *Prog, r *Report, tier string) {
	r.Rule = "T-eq of every field of the mint request and both events; CG-sites/G-mpt of the single Mint; F-neg Mint for every other entry point"
	r.Explanation = "Decided: the only call of the fiat-token-factory Mint in the module is in ReceiveMessage, behind the branch recipient == module address, not in a loop, and on every success path of that branch; its request is " +
		"{From: ModuleAddress.String(), Address: bech32(account prefix, B.MintRecipient[12:32]), Amount: {Denom: ToLower(pair.LocalToken), Amount: B.Amount}} with B the burn message parsed from the attested body, pair = GetTokenPair(M.SourceDomain, B.BurnToken) " +
		"and B.Amount = NewIntFromBigInt(SetBytes(body[68:100])) (unsigned big-endian, full 32 bytes); MintAndWithdraw reports {B.MintRecipient, B.Amount, ToLower(pair.LocalToken)} and MessageReceived {msg.From, M.SourceDomain, M.Nonce, M.Sender, M.MessageBody}; " +
		"no other transaction handler, query or genesis function can reach Mint. Not decided: what the dependency does with the request; the history sum follows from one-mint-per-accepted-burn-message plus C02 and is argued, not executed."
	r.Assumptions = []string{"go/ssa faithfully represents the module code", "fiat-token-factory Mint mints exactly the requested coin to the requested address", "typed-event emission encodes the struct it is given"}
	r.Trusted = r.Assumptions

	c := rmCtxWith(p, r, abRMx)
	if c == nil {
		return
	}
	// all Mint sites program-wide
	ctxDiscipline(p, r, txRoots(p, "ReceiveMessage"))
	var sites []string
	for _, fn := range p.Funcs {
		for _, e := range p.own(fn) {
			if e.Kind == "LEDGER" && e.Region == "fiattokenfactory.Mint" {
				sites = append(sites, funcName(fn))
			}
		}
	}
	r.check(len(sites) == 1 && sites[0] == "(keeper.msgServer).ReceiveMessage", "CG-sites", "CG-sites/fiattokenfactory.Mint", "",
		"one Mint call site, in ReceiveMessage", fmt.Sprintf("Mint call sites: %v", sites))
	mint := c.oneCall("CG-sites", "k.fiattokenfactory.Mint")
	if mint != nil {
		r.check(!c.onCycle(mint), "G-once", "G-once/ReceiveMessage/Mint", p.instrPos(mint), "Mint is not inside a loop", "Mint is inside a loop: more than one mint per receive")
		c.requireCut("G-cut", "mint-only-for-module-recipient", []Atom{A("bytes.Equal(M.Recipient,types.PaddedModuleAddress)")}, []ssa.Instruction{mint})
		if start := moduleBranchStart(c); start != nil {
			fi := p.info(c.fn)
			via := c.viaAnchors([]ssa.Instruction{mint})
			leak := len(via) == 0
			for _, s := range c.successReturns() {
				if fi.blockReachesAvoiding(start, c.siteInFn(s), via) {
					leak = true
				}
			}
			r.check(!leak, "G-mpt", "G-mpt/ReceiveMessage/module-branch-mints", p.instrPos(mint), "every success path of the module branch passes the Mint call",
				"a success path of the module-recipient branch avoids the Mint call: an accepted burn message may mint nothing")
		} else {
			r.fail("G-mpt", "G-mpt/ReceiveMessage/module-branch-mints", c.pos(), "module branch not found")
		}
		// … and conversely: a receive that succeeds without minting was not addressed to the module
		// (a weakened branch condition — `domain != 9 && Equal(...)` — would let module-addressed
		// burn messages succeed, consume their nonce and mint nothing)
		{
			notMod := []Atom{A("!bytes.Equal(M.Recipient,types.PaddedModuleAddress)")}
			edges, matched := passEdges(c.ifs, notMod)
			anchor := c.siteInFn(mint)
			mb := anchor.Block()
			for slot := range mb.Succs {
				edges[Edge{mb, slot, nil}] = true // leaving the mint's block: the mint was executed
			}
			leakAt := ""
			if len(matched) > 0 {
				reach := reachFrom([]*ssa.BasicBlock{c.fn.Blocks[0]}, edges)
				for _, s := range c.successReturns() {
					sb := c.siteInFn(s).Block()
					if reach[sb] && sb != mb {
						leakAt = p.instrPos(s)
					}
				}
			}
			r.check(len(matched) > 0 && leakAt == "", "G-cut", "G-cut/ReceiveMessage/no-mint-only-for-other-recipients", p.instrPos(mint),
				"every success path that does not execute the Mint lies behind recipient != module address",
				"a success return at "+leakAt+" is reachable without the Mint and without the recipient having tested different from the module address: a message addressed to the module can be accepted without minting")
		}
		req := c.argTerms(mint)[1]
		// compare field by field (abbreviations for sub-terms, not for the request itself)
		sub := *c
		sub.checkLitN("T-eq", "MsgMint", req, "ftf.MsgMint", map[string]string{
			"From":    "MODADDR",
			"Address": "RCPT#0",
			"Amount":  "sdk.Coin{Denom:DENOM,Amount:B.Amount}",
		}, p.instrPos(mint))
	}
	// events
	sub := *c
	nEv := 0
	for _, e := range p.own(c.fn) {
		if e.Kind != "EVENT" {
			continue
		}
		nEv++
		switch e.Region {
		case "*types.MintAndWithdraw":
			sub.checkLitN("T-eq", "MintAndWithdraw", e.Val, "types.MintAndWithdraw", map[string]string{
				"MintRecipient": "B.MintRecipient", "Amount": "B.Amount", "MintToken": "DENOM"}, p.instrPos(e.In))
		case "*types.MessageReceived":
			sub.checkLitN("T-eq", "MessageReceived", e.Val, "types.MessageReceived", map[string]string{
				"Caller": "p2.From", "SourceDomain": "M.SourceDomain", "Nonce": "M.Nonce", "Sender": "M.Sender", "MessageBody": "M.MessageBody"}, p.instrPos(e.In))
			c.mustPass("G-mpt", "MessageReceived-emitted", []ssa.Instruction{e.In}, c.successReturns())
		default:
			r.fail("T-eq", "T-eq/ReceiveMessage/event/"+e.Region, p.instrPos(e.In), "unexpected event "+e.Region)
		}
	}
	r.check(nEv == 2, "T-eq", "T-eq/ReceiveMessage/event-sites", c.pos(), "two event sites", fmt.Sprintf("%d event sites", nEv))
	// amount decoding in the parser
	if pc := p.fc(r, p.Func("types.*BurnMessage.Parse"), "BurnMessage.Parse", nil); pc != nil {
		st := storesThrough(pc, pc.fn.Params[0])
		pc.teq("T-eq", "Amount-decoding", st["Amount"], "sdkmath.NewIntFromBigInt((*math/big.Int).SetBytes(&math/big.Int{},p1[68:100]))", pc.pos())
		pc.teq("T-eq", "MintRecipient-slice", st["MintRecipient"], "p1[36:68]", pc.pos())
		pc.teq("T-eq", "BurnToken-slice", st["BurnToken"], "p1[4:36]", pc.pos())
	}
	// who may mint
	n := 0
	for _, h := range p.txHandlers() {
		if h.Name == "ReceiveMessage" {
			continue
		}
		n++
		r.check(!hasEffect(p, h.Fn, "LEDGER", "fiattokenfactory.Mint"), "F-neg", "F-neg/tx/"+h.Name+"/no-mint", "", "cannot reach Mint", h.Name+" can reach the fiat-token-factory Mint")
	}
	for _, q := range p.queryHandlers() {
		n++
		r.check(!hasEffect(p, q.Fn, "LEDGER", "fiattokenfactory.Mint"), "F-neg", "F-neg/query/"+q.Name+"/no-mint", "", "cannot reach Mint", "query "+q.Name+" can reach Mint")
	}
	for _, g := range []string{"cctp.InitGenesis", "cctp.ExportGenesis"} {
		n++
		r.check(!hasEffect(p, p.Func(g), "LEDGER", "fiattokenfactory.Mint"), "F-neg", "F-neg/"+g+"/no-mint", "", "cannot reach Mint", g+" can reach Mint")
	}
	r.floor("no-mint-entry-points", n, 24+19+2)
}

func hasEffect(p *Prog, fn *ssa.Function, kind, region string) bool {
	if fn == nil {
		return false
	}
	for _, e := range p.closure(fn) {
		if e.Kind == kind && e.Region == region {
			return true
		}
	}
	return false
}

// checkLitN is checkLit with length normalisation applied to the got terms.
func (c *FC) checkLitN(rule, what string, t *Term, wantType string, want map[string]string, pos string) {
	old := c.ab
	c.ab = append([][2]string{}, old...)
	defer func() { c.ab = old }()
	typ, got, ok := c.litFieldsN(t)
	if !ok {
		st := c.shn(t.String())
		key := fmt.Sprintf("%s/%s/%s", rule, c.name, what)
		if strings.Contains(st, "?") {
			c.r.undecided(rule, key, pos, what+" is not a resolvable literal: "+st)
		} else {
			c.r.fail(rule, key, pos, what+" is not a literal of "+wantType+": "+st)
		}
		return
	}
	c.teq(rule, what+".type", typ, wantType, pos)
	seen := map[string]bool{}
	var names []string
	for f := range want {
		names = append(names, f)
		seen[f] = true
	}
	for f := range got {
		if !seen[f] {
			names = append(names, f)
		}
	}
	sortStrings(names)
	for _, f := range names {
		g, w := got[f], want[f]
		if g == "" {
			g = "<zero>"
		}
		if w == "" {
			w = "<zero>"
		}
		c.teq(rule, what+"."+f, g, w, pos)
	}
}

func (c *FC) litFieldsN(t *Term) (string, map[string]string, bool) {
	if t.Op == "addr" {
		t = t.A[0]
	}
	if t.Op != "lit" {
		return "", nil, false
	}
	m := map[string]string{}
	for i, f := range t.F {
		m[f] = c.shn(t.A[i].String())
	}
	return t.S, m, true
}

// storesThrough lists, per field name, the term stored through pointer ptr (a
// receiver or a returned pointer) in c's function. Multiple stores to one field
// are joined with " | ".
func storesThrough(c *FC, ptr ssa.Value) map[string]string {
	out := map[string]string{}
	refs := ptr.Referrers()
	if refs == nil {
		return out
	}
	for _, r := range *refs {
		fa, ok := r.(*ssa.FieldAddr)
		if !ok {
			continue
		}
		name := fieldName(fa)
		frefs := fa.Referrers()
		if frefs == nil {
			continue
		}
		for _, fr := range *frefs {
			if st, ok := fr.(*ssa.Store); ok && st.Addr == ssa.Value(fa) {
				t := c.term(st.Val, st)
				if prev, ok := out[name]; ok {
					out[name] = prev + " | " + t
				} else {
					out[name] = t
				}
			}
		}
	}
	return out
}
