package main

import (
	"fmt"
	"go/token"
	"go/types"
	"sort"
	"strings"

	"golang.org/x/tools/go/ssa"
)

// panicSite is one panic-capable construct in module code.
type panicSite struct {
	Kind string // panic | slice | index | assert | div | mapupdate | deref | intnil | ctor
	Fn   *ssa.Function
	In   ssa.Instruction
	Desc string
}

func (p *Prog) c20Entries() map[string]*ssa.Function {
	out := map[string]*ssa.Function{}
	for _, h := range p.txHandlers() {
		out["tx:"+h.Name] = h.Fn
	}
	for _, q := range p.queryHandlers() {
		out["query:"+q.Name] = q.Fn
	}
	for _, n := range []string{"types.*Message.Parse", "types.*Message.Bytes", "types.*BurnMessage.Parse", "types.*BurnMessage.Bytes", "types.RemoteTokenPadded",
		"types.GenesisState.Validate", "cli.parseAddress", "cli.leftPadBytes"} {
		out["fn:"+n] = p.Func(n)
	}
	return out
}

func (p *Prog) reachableFrom(entries map[string]*ssa.Function) map[*ssa.Function]bool {
	reach := map[*ssa.Function]bool{}
	var visit func(fn *ssa.Function)
	visit = func(fn *ssa.Function) {
		if fn == nil || reach[fn] {
			return
		}
		reach[fn] = true
		for _, ce := range p.effects(fn).calls {
			visit(ce.Callee)
		}
		// a module-declared type handed on as an interface value: code outside the module (fmt,
		// sort, encoders) may call its hand-written methods
		for _, b := range fn.Blocks {
			for _, in := range b.Instrs {
				if mi, ok := in.(*ssa.MakeInterface); ok {
					if n := p.moduleNamed(mi.X.Type()); n != nil {
						for _, m := range p.handWrittenMethods(n) {
							if knownFuncs[funcName(m)] {
								continue
							}
							callable := implicitMethods[m.Name()]
							if it, ok := mi.Type().Underlying().(*types.Interface); ok {
								for i := 0; i < it.NumMethods(); i++ {
									if it.Method(i).Name() == m.Name() {
										callable = true
									}
								}
							}
							if callable {
								visit(m)
							}
						}
					}
				}
			}
		}
		for _, an := range fn.AnonFuncs {
			visit(an)
		}
	}
	for _, fn := range entries {
		visit(fn)
	}
	return reach
}

func (p *Prog) panicSites(reach map[*ssa.Function]bool) []panicSite {
	var out []panicSite
	var fns []*ssa.Function
	for fn := range reach {
		fns = append(fns, fn)
	}
	sort.Slice(fns, func(i, j int) bool { return funcName(fns[i]) < funcName(fns[j]) })
	for _, fn := range fns {
		x := p.tx(fn)
		for _, b := range fn.Blocks {
			for _, in := range b.Instrs {
				switch in := in.(type) {
				case *ssa.Panic:
					out = append(out, panicSite{"panic", fn, in, x.Of(in.X, in).String()})
				case *ssa.Slice:
					out = append(out, panicSite{"slice", fn, in, x.Of(in, in).String()})
				case *ssa.IndexAddr:
					out = append(out, panicSite{"index", fn, in, x.Of(in.X, in).String() + "[" + x.Of(in.Index, in).String() + "]"})
				case *ssa.Index:
					out = append(out, panicSite{"index", fn, in, x.Of(in.X, in).String() + "[" + x.Of(in.Index, in).String() + "]"})
				case *ssa.TypeAssert:
					if !in.CommaOk {
						out = append(out, panicSite{"assert", fn, in, x.Of(in.X, in).String() + ".(" + typeStr(in.AssertedType) + ")"})
					}
				case *ssa.BinOp:
					if in.Op == token.SHL || in.Op == token.SHR {
						if b, ok := in.Y.Type().Underlying().(*types.Basic); ok && b.Info()&types.IsUnsigned == 0 {
							if _, isC := constInt(in.Y); !isC {
								out = append(out, panicSite{"shift", fn, in, x.Of(in, in).String()})
							}
						}
					}
					if in.Op == token.QUO || in.Op == token.REM {
						if b, ok := in.Type().Underlying().(*types.Basic); ok && b.Info()&types.IsInteger != 0 {
							out = append(out, panicSite{"div", fn, in, x.Of(in, in).String()})
						}
					}
				case *ssa.SliceToArrayPointer:
					out = append(out, panicSite{"toarray", fn, in, x.Of(in.X, in).String() + " -> " + typeStr(in.Type())})
				case *ssa.UnOp:
					if in.Op == token.MUL {
						switch in.X.(type) {
						case *ssa.Phi, *ssa.Call, *ssa.Const, *ssa.Extract:
							if _, isPtr := in.X.Type().Underlying().(*types.Pointer); isPtr {
								out = append(out, panicSite{"nilderef", fn, in, "*" + x.Of(in.X, in).String()})
							}
						}
					}
				case *ssa.FieldAddr:
					switch in.X.(type) {
					case *ssa.Phi, *ssa.Call, *ssa.Const, *ssa.Extract:
						out = append(out, panicSite{"nilderef", fn, in, x.Of(in.X, in).String() + "." + fieldName(in)})
					}
				case *ssa.Call:
					if in.Call.StaticCallee() == nil && !in.Call.IsInvoke() {
						if _, isB := in.Call.Value.(*ssa.Builtin); !isB {
							switch fv := in.Call.Value.(type) {
							case *ssa.MakeClosure, *ssa.Function, *ssa.Parameter, *ssa.FreeVar:
							case *ssa.Const:
								out = append(out, panicSite{"nilcall", fn, in, "nil function"})
							case *ssa.Phi:
								for _, e := range fv.Edges {
									if k, ok := e.(*ssa.Const); ok && k.Value == nil {
										out = append(out, panicSite{"nilcall", fn, in, x.Of(fv, in).String()})
									}
								}
							case *ssa.UnOp:
								if g, ok := fv.X.(*ssa.Global); ok {
									_ = g
									out = append(out, panicSite{"nilcall", fn, in, x.Of(fv, in).String()})
								}
							}
						}
					}
				case *ssa.MapUpdate:
					out = append(out, panicSite{"mapupdate", fn, in, x.Of(in.Map, in).String()})
				case *ssa.MakeSlice:
					// make([]T, n[, c]) panics when n < 0 or n > c
					if _, isC := constInt(in.Len); !isC {
						out = append(out, panicSite{"makeslice", fn, in, "make(" + x.Of(in.Len, in).String() + ")"})
					}
				}
			}
		}
	}
	return out
}

func dumpPanicSites(p *Prog) {
	reach := p.reachableFrom(p.c20Entries())
	for _, s := range p.panicSites(reach) {
		d := s.Desc
		if len(d) > 160 {
			d = d[:160] + "…"
		}
		fmt.Printf("%-9s %-50s %-55s %s\n", s.Kind, funcName(s.Fn), p.instrPos(s.In), strings.ReplaceAll(d, "\n", " "))
	}
}

// ---------------------------------------------------------------------------
// in-bounds prover

// edgeEstablished: every path from the entry to `at` takes edge (iff, slot).
func edgeEstablished(fn *ssa.Function, iff *ssa.If, slot int, at ssa.Instruction) bool {
	return edgeEstablishedAt(fn, ifInfo{in: iff}, slot, at)
}

// edgeEstablishedAt: same for a branch that may belong to a spliced helper (ii.site).
func edgeEstablishedAt(fn *ssa.Function, ii ifInfo, slot int, at ssa.Instruction) bool {
	b := ii.in.Block()
	if at.Block() == b {
		return false
	}
	reach := reachFrom([]*ssa.BasicBlock{fn.Blocks[0]}, map[Edge]bool{{b, slot, ii.site}: true})
	return !reach[at.Block()]
}

var lenOfActive = map[*ssa.Function]bool{}

type lenFact struct {
	min, max int // max < 0: unbounded
	why      string
}

// parseFieldLens: lengths of the fields assigned by the two Parse functions,
// derived from their own slice bounds (E6 length facts): field -> width.
func (p *Prog) parseFieldLens() map[string]int {
	out := map[string]int{}
	for _, spec := range []struct {
		fn, prefix string
		total      int // exact input length enforced by the Parse contract (0: none)
	}{{"types.*Message.Parse", "(*types.Message).Parse(", 0}, {"types.*BurnMessage.Parse", "(*types.BurnMessage).Parse(", 132}} {
		fn := p.Func(spec.fn)
		if fn == nil {
			continue
		}
		c := &FC{p: p, fn: fn, x: p.tx(fn)}
		for f, t := range storesThrough(c, fn.Params[0]) {
			var lo, hi int
			if n, _ := fmt.Sscanf(t, "p1[%d:%d]", &lo, &hi); n == 2 {
				out[spec.prefix+"|"+f] = hi - lo
			} else if n, _ := fmt.Sscanf(t, "p1[:%d]", &hi); n == 1 && strings.HasPrefix(t, "p1[:") {
				out[spec.prefix+"|"+f] = hi
			} else if n, _ := fmt.Sscanf(t, "p1[%d:]", &lo); n == 1 && t == fmt.Sprintf("p1[%d:]", lo) && spec.total > lo {
				out[spec.prefix+"|"+f] = spec.total - lo
			}
		}
	}
	return out
}

// parseFieldWidth: t is `<Parse call>#0.<Field>` for a fixed-width field of one of the Parse functions.
func parseFieldWidth(t string, plens map[string]int) (int, bool) {
	for key, w := range plens {
		parts := strings.SplitN(key, "|", 2)
		if strings.HasPrefix(t, parts[0]) && strings.HasSuffix(t, "#0."+parts[1]) {
			if idx := strings.LastIndex(t, "#0."); idx >= 0 && t[idx+3:] == parts[1] {
				return w, true
			}
		}
	}
	return 0, false
}

// lenOf derives bounds on len(v) valid when `at` executes.
func (c *FC) lenOf(v ssa.Value, at ssa.Instruction, plens map[string]int) lenFact {
	f := lenFact{0, -1, ""}
	// local buffers and constant-width slices
	switch b := v.(type) {
	case *ssa.MakeSlice:
		if n, ok := constInt(b.Len); ok {
			return lenFact{n, n, "make of constant size"}
		}
		// make([]byte, C + len(x)): at least C
		if bo, ok := b.Len.(*ssa.BinOp); ok && bo.Op == token.ADD {
			for _, pair := range [][2]ssa.Value{{bo.X, bo.Y}, {bo.Y, bo.X}} {
				if k, ok := constInt(pair[0]); ok && k >= 0 {
					if call, ok := pair[1].(*ssa.Call); ok {
						if bi, ok := call.Call.Value.(*ssa.Builtin); ok && bi.Name() == "len" {
							return lenFact{k, -1, fmt.Sprintf("make of size %d + len(..)", k)}
						}
					}
				}
			}
		}
	case *ssa.Slice:
		if arr, ok := b.X.Type().Underlying().(*types.Pointer); ok {
			if at2, ok := arr.Elem().Underlying().(*types.Array); ok {
				n := int(at2.Len())
				lo, hi := 0, n
				okc := true
				if b.Low != nil {
					if x, ok := constInt(b.Low); ok {
						lo = x
					} else {
						okc = false
					}
				}
				if b.High != nil {
					if x, ok := constInt(b.High); ok {
						hi = x
					} else {
						okc = false
					}
				}
				if okc {
					return lenFact{hi - lo, hi - lo, "slice of a local array"}
				}
			}
		}
		lo, hasLo := 0, true
		if b.Low != nil {
			lo, hasLo = constInt(b.Low)
		}
		if b.High != nil {
			if hi, ok := constInt(b.High); ok && hasLo {
				return lenFact{hi - lo, hi - lo, "constant slice bounds"}
			}
			// x[e : e+C]
			if bo, ok := b.High.(*ssa.BinOp); ok && bo.Op == token.ADD && b.Low != nil {
				if k, ok := constInt(bo.Y); ok && c.term(bo.X, b) == c.term(b.Low, b) {
					return lenFact{k, k, "window of constant width"}
				}
				// x[e+a : e+b]
				if lo2, ok := b.Low.(*ssa.BinOp); ok && lo2.Op == token.ADD {
					ka, oka := constInt(lo2.Y)
					kb, okb := constInt(bo.Y)
					if oka && okb && kb >= ka && c.term(lo2.X, b) == c.term(bo.X, b) {
						return lenFact{kb - ka, kb - ka, "window of constant width"}
					}
				}
			}
		} else if hasLo {
			inner := c.lenOf(b.X, at, plens)
			if inner.max >= 0 && inner.min == inner.max {
				return lenFact{inner.min - lo, inner.min - lo, "tail of a fixed-length value"}
			}
		}
	}
	// parameter of a NEW helper: what every call site guarantees about the argument
	if prm, ok := v.(*ssa.Parameter); ok && c.p.newHelper(c.fn) && !lenOfActive[c.fn] {
		lenOfActive[c.fn] = true
		defer delete(lenOfActive, c.fn)
		idx := -1
		for i, q := range c.fn.Params {
			if q == prm {
				idx = i
			}
		}
		callers := c.p.callersOf(c.fn)
		if idx >= 0 && len(callers) > 0 && len(c.p.funcValueUses(c.fn)) == 0 {
			res := lenFact{-1, 0, "argument at every call site"}
			for caller, calls := range callers {
				cc := &FC{p: c.p, r: c.r, fn: caller, x: c.p.tx(caller), name: funcName(caller)}
				for _, call := range calls {
					if idx >= len(call.Call.Args) {
						return f
					}
					a := cc.lenOf(call.Call.Args[idx], call, plens)
					if res.min < 0 || a.min < res.min {
						res.min = a.min
					}
					if a.max < 0 || res.max < 0 {
						res.max = -1
					} else if a.max > res.max {
						res.max = a.max
					}
					if a.why != "" {
						res.why = "argument at every call site: " + a.why
					}
				}
			}
			if res.min >= 0 {
				return res
			}
		}
	}
	t := c.x.Of(v, at).String()
	// dependency fact: crypto.Ecrecover returns a 65-byte uncompressed key whenever its error is nil
	if ex, ok := v.(*ssa.Extract); ok && ex.Index == 0 {
		if call, ok := ex.Tuple.(*ssa.Call); ok {
			if callee := call.Call.StaticCallee(); callee != nil && funcName(callee) == "ethcrypto.Ecrecover" {
				ct := c.x.Of(call, call).String()
				for _, ii := range c.p.ifs(c.fn) {
					if ii.atom.Key == "("+ct+"#1 == nil)" || ii.atom.Key == "(nil == "+ct+"#1)" {
						slot := 0
						if !ii.atom.Pol {
							slot = 1
						}
						if edgeEstablishedAt(c.fn, ii, slot, at) {
							return lenFact{65, 65, "crypto.Ecrecover returns 65 bytes when its error is nil (go-ethereum contract)"}
						}
					}
				}
			}
		}
	}
	// the same through a new helper's parameters: the term with every call site's arguments
	if c.p.newHelper(c.fn) && c.x.Of(v, at).hasParam() && !lenOfActive[c.fn] {
		if callers := c.p.callersOf(c.fn); len(callers) > 0 && len(c.p.funcValueUses(c.fn)) == 0 {
			all, width := true, -1
			for caller, calls := range callers {
				cx := c.p.tx(caller)
				for _, call := range calls {
					var env []*Term
					for _, a := range call.Call.Args {
						env = append(env, cx.Of(a, call))
					}
					w, ok := parseFieldWidth(substTerm(c.x.Of(v, at), env).String(), plens)
					if !ok || (width >= 0 && w != width) {
						all = false
					}
					width = w
				}
			}
			if all && width >= 0 {
				return lenFact{width, width, "fixed-width Parse field at every call site of " + funcName(c.fn)}
			}
		}
	}
	// fields produced by the Parse functions
	for key, w := range plens {
		parts := strings.SplitN(key, "|", 2)
		if strings.HasPrefix(t, parts[0]) && strings.HasSuffix(t, "#0."+parts[1]) && strings.Count(t, "#0.") >= 1 {
			// the outermost selector must be the field itself
			if idx := strings.LastIndex(t, "#0."); idx >= 0 && t[idx+3:] == parts[1] {
				return lenFact{w, w, "fixed-width field assigned by " + strings.TrimSuffix(parts[0], "(")}
			}
		}
	}
	// dominating guards on len(t)
	for _, ii := range c.p.ifs(c.fn) {
		key := ii.atom.Key
		var k int
		pat1 := "(len(" + t + ") < "
		switch {
		case strings.HasPrefix(key, pat1) && strings.HasSuffix(key, ")"):
			if _, err := fmt.Sscanf(key[len(pat1):], "%d)", &k); err != nil {
				continue
			}
			// atom true on Succs[0] iff Pol
			ltSlot, geSlot := 0, 1
			if !ii.atom.Pol {
				ltSlot, geSlot = 1, 0
			}
			if edgeEstablishedAt(c.fn, ii, geSlot, at) && k > f.min {
				f.min, f.why = k, "guard "+key+" is false here"
			}
			if edgeEstablishedAt(c.fn, ii, ltSlot, at) && (f.max < 0 || k-1 < f.max) {
				f.max, f.why = k-1, "guard "+key+" holds here"
			}
		default:
			var kk int
			if n, _ := fmt.Sscanf(key, "(%d == len(", &kk); n == 1 && key == fmt.Sprintf("(%d == len(%s))", kk, t) {
				eqSlot := 0
				if !ii.atom.Pol {
					eqSlot = 1
				}
				if edgeEstablishedAt(c.fn, ii, eqSlot, at) {
					return lenFact{kk, kk, "guard " + key + " holds here"}
				}
			}
		}
	}
	return f
}

// proveSlice decides whether a slice expression is in bounds.
func (c *FC) proveSlice(s *ssa.Slice, plens map[string]int) (bool, string) {
	if s.Max != nil {
		// x[lo:hi:max] additionally needs hi <= max <= cap(x); only len(x) is known, so max must be
		// a constant within the proven length (or the high bound itself) and the rest is proven as x[lo:hi]
		mx, okM := constInt(s.Max)
		same := s.Max == s.High
		if hi, okH := constInt(s.High); okH && okM && hi == mx {
			same = true
		}
		if !same {
			base := c.lenOf(s.X, s, plens)
			if !okM || mx > base.min {
				return false, fmt.Sprintf("full slice expression: max bound must be within the proven length (len >= %d)", base.min)
			}
			if hi, okH := constInt(s.High); s.High != nil && (!okH || hi > mx) {
				return false, "full slice expression: high bound not provably <= max"
			}
		}
	}
	// slicing a local array
	if ptr, ok := s.X.Type().Underlying().(*types.Pointer); ok {
		if arr, ok := ptr.Elem().Underlying().(*types.Array); ok {
			n := int(arr.Len())
			lo, hi := 0, n
			if s.Low != nil {
				x, ok := constInt(s.Low)
				if !ok {
					return false, "non-constant bound on an array"
				}
				lo = x
			}
			if s.High != nil {
				x, ok := constInt(s.High)
				if !ok {
					// make([]T, C-len(y), n) is `new [n]T; t[:C-len(y)]`: in range when len(y) <= C <= n
					if bo, isSub := s.High.(*ssa.BinOp); isSub && bo.Op == token.SUB && s.Low == nil {
						if k, ok := constInt(bo.X); ok && k <= n {
							if call, ok := bo.Y.(*ssa.Call); ok {
								if bi, ok := call.Call.Value.(*ssa.Builtin); ok && bi.Name() == "len" {
									y := c.lenOf(call.Call.Args[0], s, plens)
									if y.max >= 0 && y.max <= k {
										return true, fmt.Sprintf("[:%d-len(y)] of an array of %d with len(y) <= %d (%s)", k, n, y.max, y.why)
									}
									return false, fmt.Sprintf("[:%d-len(y)] needs len(y) <= %d; known max %d", k, k, y.max)
								}
							}
						}
					}
					return false, "non-constant bound on an array"
				}
				hi = x
			}
			if 0 <= lo && lo <= hi && hi <= n {
				return true, fmt.Sprintf("constant bounds [%d:%d] within array of %d", lo, hi, n)
			}
			return false, "constant bounds outside the array"
		}
	}
	if _, isStr := s.X.Type().Underlying().(*types.Basic); isStr {
		// string slicing
	}
	base := c.lenOf(s.X, s, plens)
	lo, loConst := 0, true
	if s.Low != nil {
		lo, loConst = constInt(s.Low)
	}
	high := s.High
	if call, ok := high.(*ssa.Call); ok {
		// x[lo:len(x)] is x[lo:]
		if bi, ok := call.Call.Value.(*ssa.Builtin); ok && bi.Name() == "len" && call.Call.Args[0] == s.X {
			high = nil
		}
	}
	if high != nil {
		hi, hiConst := constInt(s.High)
		if loConst && hiConst {
			if 0 <= lo && lo <= hi && hi <= base.min {
				return true, fmt.Sprintf("[%d:%d] with len >= %d (%s)", lo, hi, base.min, base.why)
			}
			return false, fmt.Sprintf("[%d:%d] needs len >= %d, known: len >= %d", lo, hi, hi, base.min)
		}
		// x[lo:size] where x = make([]byte, size): the upper bound is the length itself
		if ms, ok := s.X.(*ssa.MakeSlice); ok && loConst && lo <= base.min {
			if c.term(s.High, s) == c.term(ms.Len, ms) {
				return true, fmt.Sprintf("[%d:size] on make(size) with size >= %d", lo, base.min)
			}
		}
		return false, "non-constant upper bound"
	}
	if loConst {
		if 0 <= lo && lo <= base.min {
			return true, fmt.Sprintf("[%d:] with len >= %d (%s)", lo, base.min, base.why)
		}
		return false, fmt.Sprintf("[%d:] needs len >= %d, known: len >= %d", lo, lo, base.min)
	}
	// x[C-len(y):] on a value of fixed length N >= C with len(y) <= C
	if bo, ok := s.Low.(*ssa.BinOp); ok && bo.Op == token.SUB {
		if k, ok := constInt(bo.X); ok {
			if call, ok := bo.Y.(*ssa.Call); ok {
				if bi, ok := call.Call.Value.(*ssa.Builtin); ok && bi.Name() == "len" {
					y := c.lenOf(call.Call.Args[0], s, plens)
					if y.max >= 0 && y.max <= k && base.min >= k {
						return true, fmt.Sprintf("[%d-len(y):] with len(y) <= %d (%s) and len >= %d", k, y.max, y.why, base.min)
					}
					return false, fmt.Sprintf("[%d-len(y):] needs len(y) <= %d; known max %d", k, k, y.max)
				}
			}
		}
	}
	return false, "non-constant lower bound"
}

// proveIndex decides whether an index expression is in bounds.
func (c *FC) proveIndex(x ssa.Value, idx ssa.Value, at ssa.Instruction, plens map[string]int) (bool, string) {
	if ptr, ok := x.Type().Underlying().(*types.Pointer); ok {
		if arr, ok := ptr.Elem().Underlying().(*types.Array); ok {
			if i, ok := constInt(idx); ok && 0 <= i && i < int(arr.Len()) {
				return true, "constant index within a local array"
			}
			return false, "index on an array not constant / out of range"
		}
	}
	base := c.lenOf(x, at, plens)
	if i, ok := constInt(idx); ok {
		if 0 <= i && i < base.min {
			return true, fmt.Sprintf("index %d with len >= %d (%s)", i, base.min, base.why)
		}
		return false, fmt.Sprintf("index %d needs len >= %d, known: len >= %d", i, i+1, base.min)
	}
	// len(x)-1 on a non-empty value
	if bo, ok := idx.(*ssa.BinOp); ok && bo.Op == token.SUB {
		if k, ok := constInt(bo.Y); ok && k >= 1 {
			if call, ok := bo.X.(*ssa.Call); ok {
				if bi, ok := call.Call.Value.(*ssa.Builtin); ok && bi.Name() == "len" && call.Call.Args[0] == x {
					if base.min >= k {
						return true, fmt.Sprintf("index len-%d with len >= %d (%s)", k, base.min, base.why)
					}
				}
			}
		}
	}
	// a dominating test idx < len(x), or idx < C-len(y) on a value of length >= C
	for _, b := range c.fn.Blocks {
		iff, ok := b.Instrs[len(b.Instrs)-1].(*ssa.If)
		if !ok {
			continue
		}
		bo, ok := iff.Cond.(*ssa.BinOp)
		if !ok || bo.Op != token.LSS || bo.X != idx {
			continue
		}
		if !edgeEstablished(c.fn, iff, 0, at) {
			continue
		}
		if call, ok := bo.Y.(*ssa.Call); ok {
			if bi, ok := call.Call.Value.(*ssa.Builtin); ok && bi.Name() == "len" && (call.Call.Args[0] == x || c.x.Of(call.Call.Args[0], call).String() == c.x.Of(x, at).String()) {
				if nonNegativeCounter(idx) {
					return true, "index is a counter from 0 tested against len of the same value"
				}
			}
		}
		if sub, ok := bo.Y.(*ssa.BinOp); ok && sub.Op == token.SUB {
			if k, ok := constInt(sub.X); ok && base.min >= k && nonNegativeCounter(idx) {
				return true, fmt.Sprintf("index is a counter tested against %d-len(..) and len >= %d", k, base.min)
			}
		}
	}
	return false, "no dominating bound on the index"
}

// nonNegativeCounter: phi(c >= 0 | self+1) or such a phi + 1 (range loops start at -1 then add 1).
func nonNegativeCounter(v ssa.Value) bool {
	isCounter := func(phi *ssa.Phi, minStart int) bool {
		for _, e := range phi.Edges {
			if k, ok := constInt(e); ok {
				if k < minStart {
					return false
				}
				continue
			}
			bo, ok := e.(*ssa.BinOp)
			if !ok || bo.Op != token.ADD {
				return false
			}
			if k, ok := constInt(bo.Y); !ok || k < 0 || bo.X != ssa.Value(phi) {
				return false
			}
		}
		return true
	}
	switch v := v.(type) {
	case *ssa.Phi:
		return isCounter(v, 0)
	case *ssa.BinOp:
		if v.Op == token.ADD {
			if k, ok := constInt(v.Y); ok && k >= 1 {
				if phi, ok := v.X.(*ssa.Phi); ok {
					return isCounter(phi, -k)
				}
			}
		}
	}
	return false
}
