package main

import (
	"fmt"
	"go/types"
	"sort"
	"strings"

	"golang.org/x/tools/go/ssa"
)

type roleRow struct {
	Role   string // owner | attester-manager | pauser | token-controller | pending-owner
	Getter string // keeper method
}

// roleTable is the oracle for C10: which stored role each privileged transaction requires.
var roleTable = map[string]roleRow{
	"UpdateOwner":                        {"owner", "GetOwner"},
	"UpdateAttesterManager":              {"owner", "GetOwner"},
	"UpdatePauser":                       {"owner", "GetOwner"},
	"UpdateTokenController":              {"owner", "GetOwner"},
	"UpdateMaxMessageBodySize":           {"owner", "GetOwner"},
	"AddRemoteTokenMessenger":            {"owner", "GetOwner"},
	"RemoveRemoteTokenMessenger":         {"owner", "GetOwner"},
	"EnableAttester":                     {"attester-manager", "GetAttesterManager"},
	"DisableAttester":                    {"attester-manager", "GetAttesterManager"},
	"UpdateSignatureThreshold":           {"attester-manager", "GetAttesterManager"},
	"PauseBurningAndMinting":             {"pauser", "GetPauser"},
	"UnpauseBurningAndMinting":           {"pauser", "GetPauser"},
	"PauseSendingAndReceivingMessages":   {"pauser", "GetPauser"},
	"UnpauseSendingAndReceivingMessages": {"pauser", "GetPauser"},
	"LinkTokenPair":                      {"token-controller", "GetTokenController"},
	"UnlinkTokenPair":                    {"token-controller", "GetTokenController"},
	"SetMaxBurnAmountPerMessage":         {"token-controller", "GetTokenController"},
	"AcceptOwner":                        {"pending-owner", "GetPendingOwner"},
}

var userFlows = map[string]bool{"DepositForBurn": true, "DepositForBurnWithCaller": true, "ReceiveMessage": true,
	"ReplaceDepositForBurn": true, "ReplaceMessage": true, "SendMessage": true, "SendMessageWithCaller": true}

var roleKeyGlobal = map[string]string{"owner": "types.OwnerKey", "pending-owner": "types.PendingOwnerKey",
	"attester-manager": "types.AttesterManagerKey", "pauser": "types.PauserKey", "token-controller": "types.TokenControllerKey"}

func init() { register("C10", "proof", runC10) }

// roleGetterContract: getter G reads exactly region raw:<role> and returns the stored bytes as a string.
func roleGetterContract(p *Prog, r *Report, role, getter string) {
	fn := p.Func("keeper.Keeper." + getter)
	c := p.fc(r, fn, getter, nil)
	if c == nil {
		return
	}
	var reads []string
	for _, e := range p.closure(fn) {
		switch e.Kind {
		case "R", "ITER", "PAGE":
			reads = append(reads, e.Region)
		case "W", "D", "LEDGER", "EVENT":
			r.fail("getter-contract", "getter-contract/"+getter+"/effect-free", p.instrPos(e.In), getter+" has effect "+e.String())
		}
	}
	sort.Strings(reads)
	r.check(len(reads) == 1 && reads[0] == "raw:"+role, "getter-contract", "getter-contract/"+getter+"/region", c.pos(),
		getter+" reads exactly the slot raw:"+role, fmt.Sprintf("%s reads %v, expected only raw:%s", getter, reads, role))
	want := "string(runtime.KVStoreAdapter(k.storeService.OpenKVStore(ctx)).Get(" + roleKeyGlobal[role] + "))"
	n := 0
	for _, vr := range c.virtualReturns() {
		n++
		c.teq("getter-contract", "return-value", vr.vals[0], wantOrEmpty(role, want), p.instrPos(vr.at))
	}
	if n == 0 {
		r.fail("getter-contract", "getter-contract/"+getter+"/returns", c.pos(), "no return found")
	}
}

func wantOrEmpty(role, want string) string { return want }

func runC10(p *Prog, r *Report, tier string) {
	r.Rule = "G-cut + G-fail of the role guard for 18 privileged handlers; getter contracts; signer option of 25 Msg descriptors"
	r.Explanation = "Proved for every path of each of the 18 privileged handlers: every store write/delete, ledger request, event emission and every success-capable return " +
		"is unreachable from the entry unless the branch `stored role == msg.From` (for accept: pending owner found and equal to msg.From) was taken on its true side, " +
		"where the stored role is the value read by the role getter from its own slot; the unauthorised arm reaches only error returns and no effect site, so an unauthorised " +
		"transaction changes nothing even before the SDK discards it. All 25 Msg descriptors declare cosmos.msg.v1.signer = from and field 1 `from` is the Go field From. " +
		"Exhaustive: the handler inventory is the MsgServer interface; 18 privileged + 7 user flows = 25."
	r.Trusted = []string{"go/packages + go/types + go/ssa of x/tools v0.29.0", "effect recognition table (E2)", "cosmos-sdk verifies the signature of the declared signer field"}
	r.Assumptions = r.Trusted

	table := map[string]bool{}
	for h := range roleTable {
		table[h] = true
	}
	for h := range userFlows {
		table[h] = true
	}
	hs := inventoryObligations(p, r, table, "tx")
	r.floor("tx-handlers", len(hs), 25)
	wiringObligations(p, r)

	roles := map[string]string{}
	for _, row := range roleTable {
		roles[row.Role] = row.Getter
	}
	for role, g := range roles {
		if role == "pending-owner" {
			// GetPendingOwner returns (value, found): contract checked below
			fn := p.Func("keeper.Keeper.GetPendingOwner")
			c := p.fc(r, fn, "GetPendingOwner", nil)
			if c == nil {
				continue
			}
			var reads []string
			for _, e := range p.closure(fn) {
				if e.Kind == "R" || e.Kind == "ITER" {
					reads = append(reads, e.Region)
				}
			}
			r.check(len(reads) == 1 && reads[0] == "raw:pending-owner", "getter-contract", "getter-contract/GetPendingOwner/region", c.pos(),
				"reads exactly raw:pending-owner", fmt.Sprintf("reads %v", reads))
			get := "runtime.KVStoreAdapter(k.storeService.OpenKVStore(ctx)).Get(types.PendingOwnerKey)"
			var withTrue []vret
			for _, vr := range c.virtualReturns() {
				if len(vr.vals) != 2 {
					continue
				}
				v, f := vr.vals[0], vr.vals[1]
				okPair := (v == `""` && f == "false") || (v == "string("+get+")" && f == "true")
				r.check(okPair, "getter-contract", "getter-contract/GetPendingOwner/return/"+f, p.instrPos(vr.at),
					"returns ("+v+", "+f+")", "unexpected return pair ("+v+", "+f+")")
				if f != "false" {
					withTrue = append(withTrue, vr)
				}
			}
			// found=true only when the stored bytes are non-nil
			c.requireCutRets("getter-contract", "found-implies-present", []Atom{A("!(" + get + " == nil)"), A("!(nil == " + get + ")")}, withTrue)
			continue
		}
		roleGetterContract(p, r, role, g)
	}

	n := 0
	for _, h := range hs {
		row, ok := roleTable[h.Name]
		if !ok {
			continue
		}
		n++
		c := p.fc(r, h.Fn, h.Name, nil)
		if c == nil {
			continue
		}
		targets := append(c.effectSites(), c.successReturns()...)
		if row.Role == "pending-owner" {
			g1 := []Atom{A("k.GetPendingOwner(ctx)#1")}
			g2 := []Atom{A("(k.GetPendingOwner(ctx)#0 == p2.From)")}
			c.requireCut("G-cut-role", "pending-owner-found", g1, targets)
			c.requireFailArm("G-fail-role", "pending-owner-found", g1, true)
			c.requireCut("G-cut-role", "pending-owner==From", g2, targets)
			c.requireFailArm("G-fail-role", "pending-owner==From", g2, true)
			continue
		}
		g := []Atom{A("(k." + row.Getter + "(ctx) == p2.From)")}
		c.requireCut("G-cut-role", row.Role+"==From", g, targets)
		c.requireFailArm("G-fail-role", row.Role+"==From", g, true)
		r.Extra["targets/"+h.Name] = len(targets)
	}
	r.floor("privileged-handlers", n, 18)

	// signer clause
	msgs, err := p.fileDescriptorMessages("tx.pb.go")
	if err != nil {
		r.fail("signer", "signer/descriptor", "", "cannot decode tx.pb.go file descriptor: "+err.Error())
		return
	}
	byName := map[string]descMessage{}
	for _, m := range msgs {
		byName[m.Name] = m
	}
	nSigner := 0
	for _, h := range hs {
		if h.Msg == nil {
			r.fail("signer", "signer/"+h.Name, "", "handler request type not resolved")
			continue
		}
		mn := h.Msg.Obj().Name()
		dm, ok := byName[mn]
		if !ok {
			r.fail("signer", "signer/"+mn, "", "message "+mn+" not found in the compiled descriptor")
			continue
		}
		okSigner := len(dm.Signers) == 1 && dm.Signers[0] == "from" && dm.Fields[1] == "from"
		goField := false
		if st, ok := h.Msg.Underlying().(*types.Struct); ok {
			for i := 0; i < st.NumFields(); i++ {
				if st.Field(i).Name() == "From" && strings.Contains(st.Tag(i), `protobuf:"bytes,1,opt,name=from`) {
					goField = true
				}
			}
		}
		nSigner++
		r.check(okSigner && goField, "signer", "signer/"+mn, "",
			"descriptor declares cosmos.msg.v1.signer=from; field 1 `from` is Go field From",
			fmt.Sprintf("signer option of %s is %v, field 1 is %q, Go field From bound to field 1: %v", mn, dm.Signers, dm.Fields[1], goField))
	}
	r.floor("signer-options", nSigner, 25)
}

// returnsWithTrue: the returns of a (value, found) getter whose found result is the constant true.
func returnsWithTrue(c *FC) []ssa.Instruction {
	var out []ssa.Instruction
	for _, b := range c.fn.Blocks {
		for _, in := range b.Instrs {
			if ret, ok := in.(*ssa.Return); ok && len(ret.Results) == 2 {
				if c.term(ret.Results[1], ret) != "false" {
					out = append(out, ret)
				}
			}
		}
	}
	return out
}
