#!/bin/sh
# usage: ./run.sh <Cnn|all> <quick|thorough>      ./run.sh <Cnn> --replay <file>
# Static analysis of /repo's current working tree (override with VERIF_REPO).
cd "$(dirname "$0")"
HERE=$(pwd)
REPO=${VERIF_REPO:-/repo}
ID=$1
TIER=${2:-${VERIF_TIER:-quick}}
unset GOWORK
export GOFLAGS=-mod=mod GOPROXY=off GOSUMDB=off GOTOOLCHAIN=local
if [ ! -x bin/cctpcheck ] || [ -n "$(find checker -name '*.go' -newer bin/cctpcheck 2>/dev/null | head -1)" ]; then
  ./setup.sh >/dev/null || { echo "VIOLATION property=$ID replay=$HERE/replay/build-failed"; exit 1; }
fi
if [ "$TIER" = "--replay" ]; then
  exec bin/cctpcheck -repo "$REPO" -prop "$ID" -tier quick -evidence "$HERE/evidence" -replaydir "$HERE/replay" -known "$HERE/known_findings.json" -replay "$3"
fi
if [ "$TIER" = "thorough" ]; then
  exec python3 tools/thorough.py "$ID"
fi
exec bin/cctpcheck -repo "$REPO" -prop "$ID" -tier "$TIER" -evidence "$HERE/evidence" -replaydir "$HERE/replay" -known "$HERE/known_findings.json"
