#!/bin/sh
# Build the checker offline from /verif/checker (x/tools v0.29.0 from the module cache).
set -e
cd "$(dirname "$0")/checker"
unset GOWORK
export GOFLAGS=-mod=mod GOPROXY=off GOSUMDB=off GOTOOLCHAIN=local
mkdir -p ../bin ../evidence ../replay
go build -o ../bin/cctpcheck .
echo "built $(cd .. && pwd)/bin/cctpcheck"
